"""Reference interpreter of an AXFR / IXFR *response record stream*.

Written from RFC 5936 (AXFR), RFC 1995 (IXFR), RFC 1982 (serial arithmetic) and
RFC 2181 s.5 (an RRset has one TTL).  It never imports dnspython.

Data model (plain, JSON-able Python values)

  record   = (owner, rtype, ttl, rdata)
             owner  : "@" for the zone apex, "a", "b.a" ... relative to the apex; a name that
                      ends in "." is an absolute name *outside* the zone
             rtype  : "SOA", "NS", "A", ...
             rdata  : opaque hashable value; for "SOA" a tuple
                      (mname, rname, serial, refresh, retry, expire, minimum)
  message  = {"rcode": int, "question": None | (qname, qtype), "records": [record, ...]}
             qname uses the owner convention ("@" = the zone)
  zone     = dict {(owner, rtype): {rdata: frozenset of TTLs it was supplied with}}
             (see zone_of/records_of; one TTL per rdata unless a faulted stream re-adds it)

interpret(pre, serial, qtype, udp, messages) answers what a conforming client may do with
the stream when its zone is `pre` (serial `serial`, None when it has none):

  Verdict.results  : acceptable final zones if the client reports *success* (0, 1 or 2 zones)
  Verdict.may_fail : the client may (must, when results is empty) report *failure*; the zone
                     then has to be exactly `pre`
  Verdict.reason   : classification: "valid:<form>" or the first reason for invalidity
  Verdict.consumed : number of messages read by a client that succeeds

  valid   = results and not may_fail        invalid = may_fail and not results
  either  = both (the RFCs leave the case open; only the universal clauses apply)

Readings (weakest reasonable):
  * a client stops reading at the message in which the transfer completes; later messages
    do not exist for it.  Records after the final SOA *in the same message* make the stream
    invalid (the property says so).
  * question section: optional in every message (old servers); when present it must repeat
    the query (RFC 5936 2.2.2), otherwise invalid.
  * any rcode other than NOERROR in a message that is read: invalid.
  * IXFR, first SOA serial == client serial: up to date (RFC 1995 s.4), zone stays.
    first SOA older than the client (RFC 1982): invalid ("went backwards", per the property).
    |difference| == 2^31 is undefined in RFC 1982: either.
  * IXFR over UDP must complete in its single datagram; the lone newer SOA means "use TCP".
  * IXFR difference sequences: every deletion part starts with an SOA whose *serial* is the
    serial reached so far (only the serial is compared); an SOA in a deletion part always
    opens the addition part; in an addition part an apex SOA identical (rdata) to the first
    record is the end and needs the reached serial to be the announced one.
    Monotonic growth inside the chain is not demanded.
  * deleting a record that is absent / adding one that is present (IXFR), duplicates (AXFR),
    and records outside the zone: either (lenient continuation: ignore / idempotent).
    With strict_delete=True (what C13 uses on every route; thorough tier silent on the unchanged
    tree) a deletion of a record
    that the zone does not hold and that this stream has not deleted before is invalid: such
    a difference sequence was computed from other content than the client's version, i.e. it
    is "based on a different" version.
  * an SOA that is inside the zone but not at the apex: invalid when it would become zone
    content (in an IXFR deletion part it is a deletion of an absent record).
  * an apex SOA different from the first one inside an AXFR(-style) body: invalid.
  * IXFR answer "SOA(T) SOA(T)": either (empty difference sequence or AXFR-style transfer of
    an SOA-only zone).
  * TTL: an RRset whose contributing records all carry one TTL must end with that TTL;
    otherwise any of the contributed TTLs is acceptable.  Deletions ignore the TTL.
"""
from __future__ import annotations

HALF = 1 << 31
MOD = 1 << 32


# ------------------------------------------------------------------ RFC 1982
def serial_cmp(a: int, b: int):
    """-1 / 0 / 1 for a<b, a==b, a>b in RFC 1982 arithmetic, None when undefined."""
    a %= MOD
    b %= MOD
    if a == b:
        return 0
    if (a < b and b - a < HALF) or (a > b and a - b > HALF):
        return -1
    if (a < b and b - a > HALF) or (a > b and a - b < HALF):
        return 1
    return None


# ------------------------------------------------------------------ zones
def zone_of(records):
    z = {}
    for owner, rtype, ttl, rdata in records:
        z.setdefault((owner, rtype), {})[rdata] = frozenset([ttl])
    return z


def records_of(zone):
    out = []
    for (owner, rtype), rds in zone.items():
        for rdata, ttls in rds.items():
            out.append((owner, rtype, min(ttls) if len(ttls) == 1 else tuple(sorted(ttls)), rdata))
    return sorted(out, key=repr)


def copy_zone(z):
    return {k: dict(v) for k, v in z.items()}


def zone_serial(zone):
    rds = zone.get(("@", "SOA"))
    if not rds or len(rds) != 1:
        return None
    return next(iter(rds))[2]


def zone_matches(expected, observed_records):
    """Does the observed content (iterable of records) equal `expected` under the TTL reading?"""
    obs = {}
    for owner, rtype, ttl, rdata in observed_records:
        obs.setdefault((owner, rtype), {})[rdata] = ttl
    if set(obs) != set(expected):
        return False
    for key, rds in expected.items():
        o = obs[key]
        if set(o) != set(rds):
            return False
        ottl = set(o.values())
        if len(ottl) != 1:          # an RRset has one TTL
            return False
        if not ottl <= frozenset().union(*rds.values()):
            return False
    return True


def in_zone(owner):
    return not owner.endswith(".")


def is_apex_soa(rec):
    return rec[1] == "SOA" and rec[0] == "@"


class Verdict:
    __slots__ = ("results", "may_fail", "reason", "consumed", "notes")

    def __init__(self):
        self.results = []
        self.may_fail = False
        self.reason = ""
        self.consumed = 0
        self.notes = []

    @property
    def kind(self):
        if self.results and not self.may_fail:
            return "valid"
        if self.results:
            return "either"
        return "invalid"

    def __repr__(self):
        return "Verdict(%s, reason=%s, results=%d, consumed=%d, notes=%s)" % (
            self.kind, self.reason, len(self.results), self.consumed, self.notes)


class _Invalid(Exception):
    pass


def _run(pre, serial, qtype, udp, messages, ooz_counts, strict_delete=False):
    """One deterministic lenient pass.  Returns (zone or None, reason, lenient_notes, consumed).
    ooz_counts: whether an out-of-zone record takes part in the 'second record' decision."""
    notes = []
    st = {
        "mode": None,        # None (nothing seen) | "axfr" | "undecided" | "inc"
        "first": None,       # first SOA record
        "phase": None,       # "del" | "add" for mode inc
        "cur": serial,       # serial reached so far (inc)
        "zone": None,
        "done": False,
        "form": None,
        "deleted": set(),    # records this stream has deleted so far
    }

    def add(rec, lenient_note):
        owner, rtype, ttl, rdata = rec
        rds = st["zone"].setdefault((owner, rtype), {})
        if rdata in rds:
            notes.append(lenient_note)
            rds[rdata] = rds[rdata] | frozenset([ttl])
        else:
            rds[rdata] = frozenset([ttl])

    def set_soa(rec):
        st["zone"][("@", "SOA")] = {rec[3]: frozenset([rec[2]])}

    def one(rec):
        if st["done"]:
            raise _Invalid("surplus-same-message")
        owner, rtype, ttl, rdata = rec
        ooz = not in_zone(owner)
        if ooz and not ooz_counts:
            notes.append("out-of-zone")
            return
        if st["mode"] is None:
            if not is_apex_soa(rec):
                raise _Invalid("first-not-apex-soa")
            st["first"] = rec
            if qtype == "AXFR":
                st["mode"] = "axfr"
                st["zone"] = {}
                st["form"] = "axfr"
                return
            target = rdata[2]
            if serial is None:
                raise _Invalid("ixfr-without-serial")
            c = serial_cmp(target, serial)
            if c == 0:
                st["zone"] = copy_zone(pre)
                st["done"] = True
                st["form"] = "ixfr-uptodate"
                return
            if c == -1:
                raise _Invalid("serial-backwards")
            if c is None:
                notes.append("serial-order-undefined")
            st["mode"] = "undecided"
            return
        if rtype == "SOA" and not ooz and owner != "@":
            # an SOA below the apex cannot become zone content; asking to *delete* one is just
            # a deletion of an absent record (handled below)
            if not (st["mode"] == "inc" and st["phase"] == "del"):
                raise _Invalid("non-apex-soa")
        apex_soa = is_apex_soa(rec)
        if st["mode"] == "undecided":
            if apex_soa:
                if rdata == st["first"][3]:
                    # SOA(T) SOA(T): empty difference sequence or an SOA-only zone
                    notes.append("empty-ixfr")
                    st["zone"] = {}
                    set_soa(rec)
                    st["done"] = True
                    st["form"] = "ixfr-axfr-style"
                    return
                st["mode"] = "inc"
                st["phase"] = "add"      # so that the SOA below opens a deletion part
                st["zone"] = copy_zone(pre)
                st["form"] = "ixfr-incremental"
            else:
                st["mode"] = "axfr"
                st["zone"] = {}
                st["form"] = "ixfr-axfr-style"
        if st["mode"] == "axfr":
            if apex_soa:
                if rdata == st["first"][3]:
                    set_soa(rec)
                    st["done"] = True
                    return
                raise _Invalid("foreign-soa-in-axfr")
            if ooz:
                notes.append("out-of-zone")
                return
            add(rec, "duplicate-in-axfr")
            return
        # incremental
        if apex_soa:
            if st["phase"] == "add":
                if rdata == st["first"][3]:
                    if st["cur"] != rdata[2]:
                        raise _Invalid("unexpected-end-serial")
                    set_soa(rec)
                    st["done"] = True
                    return
                if rdata[2] != st["cur"]:
                    raise _Invalid("base-serial-mismatch")
                st["phase"] = "del"
                return
            st["phase"] = "add"
            st["cur"] = rdata[2]
            set_soa(rec)
            return
        if ooz:
            notes.append("out-of-zone")
            return
        if st["phase"] == "del":
            rds = st["zone"].get((owner, rtype))
            if rds is None or rdata not in rds:
                if strict_delete and (owner, rtype, rdata) not in st["deleted"]:
                    raise _Invalid("delete-of-never-held")
                notes.append("delete-of-absent")
                return
            st["deleted"].add((owner, rtype, rdata))
            del rds[rdata]
            if not rds:
                del st["zone"][(owner, rtype)]
            return
        add(rec, "add-of-present")

    consumed = 0
    try:
        for mi, msg in enumerate(messages):
            consumed = mi + 1
            if msg.get("rcode", 0) != 0:
                raise _Invalid("rcode")
            q = msg.get("question")
            if q is not None and (q[0] != "@" or q[1] != qtype):
                raise _Invalid("question-mismatch")
            recs = [tuple(r) for r in msg["records"]]
            if mi == 0 and not recs:
                raise _Invalid("first-not-apex-soa")
            for rec in recs:
                one(rec)
            if st["done"]:
                break
            if udp:
                if st["mode"] == "undecided" and len(recs) == 1:
                    raise _Invalid("use-tcp")
                raise _Invalid("udp-incomplete")
        if not st["done"]:
            raise _Invalid("ends-early")
    except _Invalid as e:
        return None, str(e), notes, consumed
    return st["zone"], "valid:" + st["form"], notes, consumed


def interpret(pre, serial, qtype, udp, messages, strict_delete=False) -> Verdict:
    """pre: zone dict (possibly empty); serial: the serial the client put into its IXFR
    query (None for AXFR); qtype: "AXFR" | "IXFR"; udp: bool; messages: list of message dicts."""
    if qtype == "AXFR" and udp:
        raise ValueError("AXFR over UDP does not exist")
    v = Verdict()
    seen = []
    has_ooz = any(not in_zone(r[0]) for m in messages for r in m["records"])
    for ooz_counts in ((False, True) if has_ooz else (False,)):
        zone, reason, notes, consumed = _run(pre, serial, qtype, udp, messages, ooz_counts, strict_delete)
        if ooz_counts is False:
            v.reason = reason
            v.consumed = consumed
            v.notes = sorted(set(notes))
        if zone is None:
            v.may_fail = True
        else:
            if notes:
                v.may_fail = True
            key = repr(records_of(zone))
            if key not in seen:
                seen.append(key)
                v.results.append(zone)
    return v
