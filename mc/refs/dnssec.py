"""Independent reference for the key-free DNSSEC computations (property C15).

Written from the RFC texts; nothing in here imports or calls dnspython.

* names: RFC 1035 s5.1 master-file spelling -> labels; RFC 4034 s6.1 canonical order
* RFC 4034 s6.2 canonical RDATA (type list minus NSEC per RFC 6840 s5.1; RFC 3597 s7:
  no other type is ever down-cased), s6.3 canonical RR order
* RFC 4034 s3.1.8.1 RRSIG signing input + RFC 4035 s5.3.2 owner reconstruction
* RFC 4034 Appendix B key tag (B.1: algorithm 1)
* RFC 4509 / RFC 6605 DS digest
* RFC 5155 s5 NSEC3 hash, own base32hex (RFC 4648 s7)
* RFC 8976 s3 SIMPLE zone digest
* RFC 4035 s2.3 NSEC chain (delegation points, glue, occluded names, empty non-terminals)

A name is a tuple of label byte strings *without* the root label; the root name is ().
"""
from __future__ import annotations

import hashlib
import struct

# ------------------------------------------------------------------ types
A, NS, MD, MF, CNAME, SOA, MB, MG, MR, NULL, WKS, PTR, HINFO, MINFO, MX, TXT = range(1, 17)
RP, AFSDB, X25, ISDN, RT, NSAP, NSAP_PTR, SIG, KEY, PX = 17, 18, 19, 20, 21, 22, 23, 24, 25, 26
NXT, SRV, NAPTR, KX, A6, DNAME = 30, 33, 35, 36, 38, 39
DS, RRSIG, NSEC, DNSKEY, CDS, ZONEMD = 43, 46, 47, 48, 59, 63

# RFC 4034 s6.2 item 3, with NSEC removed by RFC 6840 s5.1 (HINFO is in the RFC list twice
# but carries no domain name, so it does not matter whether it is listed).
LOWERCASE_TYPES = frozenset([
    NS, MD, MF, CNAME, SOA, MB, MG, MR, PTR, MINFO, MX, RP, AFSDB, RT, SIG, PX, NXT,
    NAPTR, KX, SRV, DNAME, A6, RRSIG,
])


class RefError(Exception):
    """The reference cannot interpret its input (harness/specimen problem)."""


class Invalid(Exception):
    """The RFC says this input must be rejected."""


# ------------------------------------------------------------------ names
def lower_octets(b: bytes) -> bytes:
    """Only US-ASCII 'A'..'Z' are replaced (RFC 4034 s6.2 / RFC 4343)."""
    return bytes(c + 32 if 0x41 <= c <= 0x5A else c for c in b)


def lower_name(labels):
    return tuple(lower_octets(l) for l in labels)


def name_from_text(text: str, origin=None):
    """RFC 1035 s5.1 domain-name spelling -> labels.  `origin` (labels) completes a
    relative spelling; '@' is the origin itself.  Returns labels (absolute)."""
    if text == "@":
        if origin is None:
            raise RefError("@ without origin")
        return tuple(origin)
    if text == ".":
        return ()
    labels = []
    cur = bytearray()
    i = 0
    n = len(text)
    absolute = False
    while i < n:
        c = text[i]
        if c == "\\":
            if i + 3 < n + 0 and text[i + 1:i + 4].isdigit() and len(text[i + 1:i + 4]) == 3:
                v = int(text[i + 1:i + 4])
                if v > 255:
                    raise RefError("bad escape")
                cur.append(v)
                i += 4
            else:
                if i + 1 >= n:
                    raise RefError("dangling backslash")
                cur.append(ord(text[i + 1]))
                i += 2
        elif c == ".":
            if not cur:
                raise RefError("empty label")
            labels.append(bytes(cur))
            cur = bytearray()
            i += 1
            if i == n:
                absolute = True
        else:
            cur.append(ord(c))
            i += 1
    if cur:
        labels.append(bytes(cur))
    if any(len(l) > 63 for l in labels):
        raise RefError("label too long")
    if absolute:
        return tuple(labels)
    if origin is None:
        raise RefError("relative name without origin: %r" % text)
    return tuple(labels) + tuple(origin)


def is_relative_spelling(text: str) -> bool:
    if text == "@":
        return True
    if text == ".":
        return False
    # a trailing unescaped dot makes it absolute
    if not text.endswith("."):
        return True
    bs = 0
    j = len(text) - 2
    while j >= 0 and text[j] == "\\":
        bs += 1
        j -= 1
    return bs % 2 == 1


def name_wire(labels, lower=False) -> bytes:
    out = bytearray()
    for l in labels:
        if not 0 < len(l) < 64:
            raise RefError("bad label")
        out.append(len(l))
        out += lower_octets(l) if lower else l
    out.append(0)
    if len(out) > 255:
        raise RefError("name too long")
    return bytes(out)


def name_order_key(labels):
    """RFC 4034 s6.1: sort by the labels right to left, each label as a left-justified
    unsigned octet string with upper case folded; a missing label sorts first."""
    return tuple(lower_octets(l) for l in reversed(labels))


def is_strictly_below(name, anc) -> bool:
    name = lower_name(name)
    anc = lower_name(anc)
    return len(name) > len(anc) and (len(anc) == 0 or name[-len(anc):] == anc)


def same_name(a, b) -> bool:
    return lower_name(a) == lower_name(b)


def relativize_labels(labels, origin):
    """What a master-file reader with relativisation stores: labels below `origin`
    lose the origin suffix (-> ('rel', prefix)); others stay absolute."""
    lo = lower_name(origin)
    ll = lower_name(labels)
    if len(ll) >= len(lo) and (len(lo) == 0 or ll[len(ll) - len(lo):] == lo):
        return ("rel", tuple(labels[:len(labels) - len(origin)]))
    return ("abs", tuple(labels))


def read_name(wire: bytes, pos: int):
    """Uncompressed name at wire[pos:] -> (labels, newpos).  Pointers are refused: the
    canonical form and our specimens never compress."""
    labels = []
    while True:
        if pos >= len(wire):
            raise RefError("name runs off the end")
        ln = wire[pos]
        pos += 1
        if ln == 0:
            return tuple(labels), pos
        if ln > 63:
            raise RefError("compression pointer / bad label type in reference input")
        if pos + ln > len(wire):
            raise RefError("label runs off the end")
        labels.append(wire[pos:pos + ln])
        pos += ln


# ------------------------------------------------------------------ RDATA layouts
# Layouts of the types whose embedded names RFC 4034 s6.2 (minus NSEC) down-cases.
# Tokens: Bn = n opaque octets, N = domain name, S = <character-string>, R = rest.
# Taken from RFC 1035 s3.3 (NS MD MF CNAME SOA MB MG MR PTR MINFO MX), RFC 1183 (RP AFSDB
# RT), RFC 2535 (SIG, NXT), RFC 2163 (PX), RFC 3403 (NAPTR), RFC 2230 (KX), RFC 2782
# (SRV), RFC 6672 (DNAME), RFC 4034 s3.1 (RRSIG); A6 (RFC 2874) is handled separately.
LAYOUT = {
    NS: "N", MD: "N", MF: "N", CNAME: "N", MB: "N", MG: "N", MR: "N", PTR: "N", DNAME: "N",
    SOA: "N N B20", MINFO: "N N", RP: "N N",
    MX: "B2 N", AFSDB: "B2 N", RT: "B2 N", KX: "B2 N",
    PX: "B2 N N", SRV: "B6 N", NAPTR: "B4 S S S N",
    SIG: "B18 N R", RRSIG: "B18 N R", NXT: "N R",
}


def _segments(rdtype: int, wire: bytes):
    """Split RDATA of a down-cased type into ('b', octets) / ('n', labels) segments."""
    if rdtype == A6:
        if not wire:
            raise RefError("empty A6")
        plen = wire[0]
        if plen > 128:
            raise RefError("A6 prefix length")
        alen = (128 - plen + 7) // 8
        segs = [("b", wire[:1 + alen])]
        pos = 1 + alen
        if plen != 0:
            labels, pos = read_name(wire, pos)
            segs.append(("n", labels))
        if pos != len(wire):
            raise RefError("A6 trailing octets")
        return segs
    lay = LAYOUT[rdtype].split()
    pos = 0
    segs = []
    for tok in lay:
        if tok == "N":
            labels, pos = read_name(wire, pos)
            segs.append(("n", labels))
        elif tok == "S":
            if pos >= len(wire):
                raise RefError("short")
            ln = wire[pos]
            if pos + 1 + ln > len(wire):
                raise RefError("short string")
            segs.append(("b", wire[pos:pos + 1 + ln]))
            pos += 1 + ln
        elif tok == "R":
            segs.append(("b", wire[pos:]))
            pos = len(wire)
        else:
            k = int(tok[1:])
            if pos + k > len(wire):
                raise RefError("short fixed field")
            segs.append(("b", wire[pos:pos + k]))
            pos += k
    if pos != len(wire):
        raise RefError("trailing octets after layout of type %d" % rdtype)
    return segs


def canonical_rdata(rdtype: int, wire: bytes) -> bytes:
    """RFC 4034 s6.2 item 3 applied to *uncompressed* RDATA `wire`.

    Types outside LOWERCASE_TYPES (every type defined after RFC 4034, NSEC, and all
    types unknown to an implementation, RFC 3597 s7) are returned untouched."""
    if rdtype not in LOWERCASE_TYPES:
        return bytes(wire)
    out = bytearray()
    for kind, v in _segments(rdtype, wire):
        out += name_wire(v, lower=True) if kind == "n" else v
    return bytes(out)


def embedded_names(rdtype: int, wire: bytes):
    if rdtype not in LOWERCASE_TYPES:
        return []
    return [v for kind, v in _segments(rdtype, wire) if kind == "n"]


def canonical_rr_order(rdatas):
    """RFC 4034 s6.3: sort canonical RDATA as left-justified unsigned octet sequences
    (absence of an octet sorts before a zero octet); duplicates are removed (the MUST of
    the robustness alternative - the strict alternative is to reject)."""
    return sorted(set(bytes(r) for r in rdatas))


# ------------------------------------------------------------------ field encoders for specimens
def enc_fields(fields, names, lower=False) -> bytes:
    """fields: list of ('u8'|'u16'|'u32'|'u48', int) | ('hex', str) | ('raw', bytes) |
    ('str', bytes) (character-string) | ('name', index into names) | ('a4', 'd.d.d.d').
    names: list of absolute label tuples."""
    out = bytearray()
    for kind, v in fields:
        if kind == "u8":
            out += struct.pack("!B", v)
        elif kind == "u16":
            out += struct.pack("!H", v)
        elif kind == "u32":
            out += struct.pack("!I", v)
        elif kind == "u48":
            out += struct.pack("!HI", v >> 32, v & 0xFFFFFFFF)
        elif kind == "hex":
            out += bytes.fromhex(v)
        elif kind == "raw":
            out += v
        elif kind == "str":
            if len(v) > 255:
                raise RefError("string too long")
            out.append(len(v))
            out += v
        elif kind == "a4":
            out += bytes(int(x) for x in v.split("."))
        elif kind == "name":
            out += name_wire(names[v], lower=lower)
        else:
            raise RefError("field kind %r" % kind)
    return bytes(out)


# ------------------------------------------------------------------ RRSIG signing input
def is_wild(labels) -> bool:
    return len(labels) > 0 and labels[0] == b"*"


def rrsig_signing_input(type_covered, algorithm, labels_field, original_ttl, expiration,
                        inception, key_tag, signer, owner, rdclass, rdatas_wire):
    """RFC 4034 s3.1.8.1:  RRSIG_RDATA | RR(1) | RR(2)...

    `signer`, `owner`: absolute label tuples (any case); `rdatas_wire`: uncompressed,
    not-yet-canonical RDATA of the RRs (any order, duplicates allowed).
    Owner reconstruction per RFC 4035 s5.3.2 with the label count of the owner taken
    literally (a leading '*' counts as a label there; RFC 4034 s3.1.3 says a well-formed
    Labels field does not count it).  Raises Invalid when Labels exceeds the owner's
    label count (RFC 4035 s5.3.1 / s5.3.2: the RRSIG is bad)."""
    if not 0 <= labels_field <= 255:
        raise RefError("labels field")
    count = len(owner)
    if labels_field > count:
        raise Invalid("Labels field larger than the number of owner labels")
    if labels_field == count:
        name = tuple(owner)
    else:
        name = (b"*",) + tuple(owner[count - labels_field:]) if labels_field else (b"*",)
    head = struct.pack("!HBBIIIH", type_covered, algorithm, labels_field, original_ttl,
                       expiration, inception, key_tag)
    out = bytearray(head)
    out += name_wire(signer, lower=True)
    oname = name_wire(name, lower=True)
    fixed = struct.pack("!HHI", type_covered, rdclass, original_ttl)
    for rd in canonical_rr_order(canonical_rdata(type_covered, w) for w in rdatas_wire):
        out += oname + fixed + struct.pack("!H", len(rd)) + rd
    return bytes(out)


# ------------------------------------------------------------------ key tag, DS
def key_tag(dnskey_rdata: bytes) -> int:
    """RFC 4034 Appendix B; B.1 for algorithm 1 (needs >= 3 octets of modulus)."""
    if len(dnskey_rdata) < 4:
        raise RefError("short DNSKEY RDATA")
    if dnskey_rdata[3] == 1:
        if len(dnskey_rdata) < 4 + 3:
            raise RefError("algorithm 1 key too short for Appendix B.1")
        return (dnskey_rdata[-3] << 8) | dnskey_rdata[-2]
    ac = 0
    for i, c in enumerate(dnskey_rdata):
        ac += c if (i & 1) else (c << 8)
    ac += (ac >> 16) & 0xFFFF
    return ac & 0xFFFF


DS_HASH = {1: hashlib.sha1, 2: hashlib.sha256, 4: hashlib.sha384}


def ds_rdata(owner, dnskey_rdata: bytes, digest_type: int) -> bytes:
    """RFC 4034 s5.1.4 / RFC 4509 s2.1 / RFC 6605 s2:
    digest = H( canonical owner name wire | DNSKEY RDATA )."""
    h = DS_HASH[digest_type]
    digest = h(name_wire(owner, lower=True) + dnskey_rdata).digest()
    return struct.pack("!HBB", key_tag(dnskey_rdata), dnskey_rdata[3], digest_type) + digest


# ------------------------------------------------------------------ NSEC3
_B32HEX = "0123456789ABCDEFGHIJKLMNOPQRSTUV"


def base32hex_nopad(data: bytes) -> str:
    """RFC 4648 s7 extended-hex alphabet, no padding (RFC 5155 s1.3)."""
    bits = 0
    nbits = 0
    out = []
    for c in data:
        bits = (bits << 8) | c
        nbits += 8
        while nbits >= 5:
            nbits -= 5
            out.append(_B32HEX[(bits >> nbits) & 31])
            bits &= (1 << nbits) - 1
    if nbits:
        out.append(_B32HEX[(bits << (5 - nbits)) & 31])
    return "".join(out)


def nsec3_hash(owner, salt: bytes, iterations: int) -> str:
    """RFC 5155 s5: IH(salt,x,0)=H(x|salt); IH(salt,x,k)=H(IH(salt,x,k-1)|salt);
    x = owner name in canonical wire form; result base32hex, upper case."""
    d = hashlib.sha1(name_wire(owner, lower=True) + salt).digest()
    for _ in range(iterations):
        d = hashlib.sha1(d + salt).digest()
    return base32hex_nopad(d)


# ------------------------------------------------------------------ ZONEMD (RFC 8976 s3, SIMPLE)
ZONEMD_HASH = {1: hashlib.sha384, 2: hashlib.sha512}


def zonemd_simple_digest(apex, rrs, hash_algorithm: int) -> bytes:
    """rrs: iterable of (owner labels, rdtype, rdclass, ttl, uncompressed rdata wire).

    s3.3.1: canonical RR format (RFC 4034 s6.2, TTL as in the zone), owners in RFC 4034
    s6.1 order, RRsets of one owner by ascending numeric type, RRs of an RRset in s6.3
    order.  s3.3.1.1: every RR (glue and occluded data too) is included except the apex
    ZONEMD RRs and the RRSIGs covering the apex ZONEMD; duplicates are included once."""
    items = set()
    for owner, rdtype, rdclass, ttl, wire in rrs:
        if same_name(owner, apex):
            if rdtype == ZONEMD:
                continue
            if rdtype == RRSIG and len(wire) >= 2 and struct.unpack("!H", wire[:2])[0] == ZONEMD:
                continue
        rd = canonical_rdata(rdtype, wire)
        items.add((name_order_key(owner), rdtype, rd, rdclass, ttl, name_wire(owner, lower=True)))
    h = ZONEMD_HASH[hash_algorithm]()
    for _key, rdtype, rd, rdclass, ttl, ownerwire in sorted(items):
        h.update(ownerwire + struct.pack("!HHIH", rdtype, rdclass, ttl, len(rd)) + rd)
    return h.digest()


# ------------------------------------------------------------------ NSEC chain (RFC 4035 s2.3)
def nsec_chain(apex, rrsets):
    """rrsets: iterable of (owner labels, rdtype) present in the unsigned zone
    (RRSIG/NSEC entries are allowed and treated as present types).

    Returns (chain, signed) where
      chain  = [(owner, next_owner, frozenset(types in the bitmap))] in canonical order,
      signed = set of (lower-cased owner, rdtype) of the RRsets that get an RRSIG,
               including the generated NSEC RRsets.

    RFC 4035 s2.2: RRSIGs for every authoritative RRset; NS at a delegation point and
    glue are not signed; DS at a delegation point is.  s2.3: every owner name that has
    authoritative data or a delegation-point NS RRset gets an NSEC; names that only hold
    glue (i.e. names below a zone cut) get none; at a delegation point the bitmap has NS,
    the RRsets the parent is authoritative for (DS, NSEC, RRSIG) and MUST NOT have any
    other bit.  Empty non-terminals own no RRset and so no NSEC (RFC 4035 s2.3: an NSEC
    must not be the only RRset at a name)."""
    by_owner = {}
    spelling = {}
    for owner, rdtype in rrsets:
        k = lower_name(owner)
        by_owner.setdefault(k, set()).add(rdtype)
        spelling.setdefault(k, tuple(owner))
    lapex = lower_name(apex)
    for k in by_owner:
        if k != lapex and not is_strictly_below(k, lapex):
            raise RefError("owner outside the zone")
    cuts = [k for k, ts in by_owner.items() if NS in ts and k != lapex]
    secure = [k for k in by_owner
              if not any(is_strictly_below(k, c) for c in cuts)]
    secure.sort(key=name_order_key)
    chain = []
    signed = set()
    for i, k in enumerate(secure):
        nxt = secure[(i + 1) % len(secure)]
        present = by_owner[k]
        if k in cuts:
            types = {NS, RRSIG, NSEC}
            if DS in present:
                types.add(DS)
                signed.add((k, DS))
        else:
            types = set(present) | {RRSIG, NSEC}
            for t in present:
                if t != RRSIG:
                    signed.add((k, t))
        signed.add((k, NSEC))
        chain.append((spelling[k], spelling[nxt], frozenset(types)))
    return chain, signed


def type_bitmap(types) -> bytes:
    """RFC 4034 s4.1.2 window blocks."""
    out = bytearray()
    windows = {}
    for t in sorted(set(types)):
        windows.setdefault(t >> 8, []).append(t & 0xFF)
    for w in sorted(windows):
        bm = bytearray(32)
        for lo in windows[w]:
            bm[lo >> 3] |= 0x80 >> (lo & 7)
        while bm and bm[-1] == 0:
            bm.pop()
        out += bytes([w, len(bm)]) + bm
    return bytes(out)


def parse_type_bitmap(wire: bytes):
    types = set()
    pos = 0
    last = -1
    while pos < len(wire):
        if pos + 2 > len(wire):
            raise RefError("short bitmap")
        w, ln = wire[pos], wire[pos + 1]
        pos += 2
        if not 1 <= ln <= 32 or pos + ln > len(wire) or w <= last:
            raise RefError("bad bitmap window")
        last = w
        for i in range(ln):
            for b in range(8):
                if wire[pos + i] & (0x80 >> b):
                    types.add((w << 8) | (i << 3) | b)
        pos += ln
    return types
