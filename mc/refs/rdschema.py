"""refs/rdschema.py - independent per-record-type field schema for dnspython rdata.

One ordered field list per implemented (class, type), unknown types in RFC 3597 generic
form, and the EDNS option codecs reached through OPT.  Every field kind carries

  * a tiny boundary-value *domain* of abstract values (plain Python: int, bytes, tuples;
    names are tuples of label bytes ending in b"" = always absolute),
  * a *reference encoder* and a *reference decoder* written from the RFC wire layout of
    the type (they never call the library's to_wire/from_wire/Parser),
  * ``lib(v, origin)``  - the constructor argument for the real class,
  * ``same(attr, v, origin)`` - compares a library attribute with the abstract value
    (names byte-exact, addresses through the stdlib ``ipaddress`` module).

Reference decoder verdicts (``ref_decode``):

  ("hard", reason)    structurally malformed (a field runs past RDLENGTH, octets left
                      over after a fixed layout, bad label type / pointer): every decoder
                      must report a format error.
  ("unknown", reason) the reference does not judge the input.
  ("ok", values, soft) decoded; ``soft`` lists reasons why the value is not *well formed*
                      per the RFC (reserved value, non-canonical encoding, inconsistent
                      lengths, ...).  An implementation may accept or reject those; with
                      an empty ``soft`` it must accept, expose exactly ``values`` and
                      re-encode to ``ref_encode(values)``.

``text_issues(spec, values)`` lists reasons why a well-formed wire value is not
expressible in the type's presentation format (C05 restriction); it is part of the
schema and reported in the evidence.
"""
from __future__ import annotations

import ipaddress
import os
import struct

# ------------------------------------------------------------------ constants
IN, CH, CLASS4711 = 1, 3, 4711
ORIGIN = (b"example", b"")          # the one non-root origin used by the checks
ROOT = (b"",)


class Hard(Exception):
    """Structurally malformed RDATA."""


class Unknown(Exception):
    """The reference model does not judge this input."""


class Cur:
    """Cursor over buf[pos:end]; names may follow pointers into buf[0:...]."""

    __slots__ = ("buf", "pos", "end", "soft")

    def __init__(self, buf, pos, end, soft=None):
        self.buf = buf
        self.pos = pos
        self.end = end
        self.soft = [] if soft is None else soft

    def remaining(self):
        return self.end - self.pos

    def take(self, n):
        if n > self.end - self.pos:
            raise Hard("truncated")
        b = self.buf[self.pos:self.pos + n]
        self.pos += n
        return b

    def u(self, nbytes):
        return int.from_bytes(self.take(nbytes), "big")

    def rest(self):
        return self.take(self.end - self.pos)

    def sub(self, n):
        if n > self.end - self.pos:
            raise Hard("truncated")
        c = Cur(self.buf, self.pos, self.pos + n, self.soft)
        self.pos += n
        return c


# ------------------------------------------------------------------ names
def enc_name(labels):
    return b"".join(bytes([len(l)]) + l for l in labels)


def dec_name(cur):
    """RFC 1035 3.1 / 4.1.4.  Pointers must point to a prior occurrence (strictly
    decreasing).  Returns the absolute label tuple; flags compression in cur.soft? no:
    compression is not 'soft' - the decoded value is well formed, only the encoding is
    not the canonical (uncompressed) one."""
    labels = []
    pos = cur.pos
    limit = cur.pos           # pointer targets must be < limit
    jumped = False
    total = 0
    after = None
    while True:
        if pos >= cur.end:
            if jumped:
                raise Unknown("pointed-to name overlaps the end of the rdata")
            raise Hard("truncated name")
        c = cur.buf[pos]
        pos += 1
        if c == 0:
            total += 1
            break
        if c < 64:
            if pos + c > cur.end:
                if jumped:
                    raise Unknown("pointed-to name overlaps the end of the rdata")
                raise Hard("truncated label")
            labels.append(bytes(cur.buf[pos:pos + c]))
            pos += c
            total += c + 1
        elif c >= 192:
            if pos >= cur.end:
                if jumped:
                    raise Unknown("pointed-to name overlaps the end of the rdata")
                raise Hard("truncated pointer")
            target = ((c & 0x3F) << 8) | cur.buf[pos]
            pos += 1
            if not jumped:
                after = pos
            if target >= limit:
                raise Hard("pointer does not point backwards")
            limit = target
            pos = target
            jumped = True
        else:
            raise Hard("bad label type")
    if total > 255:
        raise Hard("name too long")
    cur.pos = after if jumped else pos
    labels.append(b"")
    return tuple(labels)


def rel_labels(labels, origin):
    """Labels relative to origin when (byte-exactly) below it, else unchanged."""
    if origin is not None and len(labels) >= len(origin) and labels[len(labels) - len(origin):] == origin:
        return labels[:len(labels) - len(origin)]
    return labels


def abs_labels(nameobj, origin):
    labs = tuple(nameobj.labels)
    if labs and labs[-1] == b"":
        return labs
    if origin is None:
        return None
    return labs + origin


def lower_labels(labels):
    return tuple(bytes(c + 32 if 65 <= c <= 90 else c for c in l) for l in labels)


L63 = b"x" * 63
NAME255 = (b"a" * 63, b"b" * 63, b"c" * 63, b"d" * 61, b"")
assert len(enc_name(NAME255)) == 255
NASTY = (b'a.b c;"\\@$()', b"")

NAMES_FREE = [               # not below ORIGIN
    (b"a", b""),
    ROOT,
    (b"A", b"b", b""),
    (b"\x00\xff", b"x", b""),
    (L63, b""),
    NAME255,
    NASTY,
]
NAMES_UNDER = [(b"r", b"example", b""), ORIGIN, (b"R", b"s", b"example", b"")]
NAMES = NAMES_FREE + NAMES_UNDER


# ------------------------------------------------------------------ field kinds
class Kind:
    charstr = False          # RFC 1035 <character-string>: C05 enumerates every octet
    nbits = None
    is_name = False

    def enc(self, v):
        raise NotImplementedError

    def dec(self, cur):
        raise NotImplementedError

    def lib(self, v, origin=None):
        return v

    def same(self, attr, v, origin=None):
        return type(attr) is type(v) and attr == v

    def domain(self, tier):
        raise NotImplementedError

    def issues(self, v):
        """Reasons why v is not well formed (value level)."""
        return []

    def text_issues(self, v):
        return []


class UInt(Kind):
    def __init__(self, bits, dom=None, maxok=None):
        self.bits = bits
        self.n = bits // 8
        self.max = (1 << bits) - 1
        self.dom = dom
        self.maxok = maxok      # values above are 'soft' (outside the defined registry range)

    def enc(self, v):
        return v.to_bytes(self.n, "big")

    def dec(self, cur):
        v = cur.u(self.n)
        if self.maxok is not None and v > self.maxok:
            cur.soft.append("value above registry maximum")
        return v

    def same(self, attr, v, origin=None):
        return isinstance(attr, int) and not isinstance(attr, bool) and int(attr) == v

    def domain(self, tier):
        if self.dom is not None:
            return list(self.dom)
        m = self.max
        return [1, 0, (m >> 1) + 1, m - 1, m, 0x0102030405060708 & m if self.bits > 8 else 0x80]


class Name(Kind):
    is_name = True

    def __init__(self, names=None, canon_lower=False, relativizes=True):
        self.names = names
        self.canon_lower = canon_lower   # RFC 4034 6.2 / RFC 6840 5.1 (used by C15)
        self.relativizes = relativizes

    def enc(self, v):
        return enc_name(v)

    def dec(self, cur):
        return dec_name(cur)

    def lib(self, v, origin=None):
        import dns.name
        return dns.name.Name(rel_labels(v, origin) if self.relativizes else v)

    def same(self, attr, v, origin=None):
        import dns.name
        if not isinstance(attr, dns.name.Name):
            return False
        return abs_labels(attr, origin) == v

    def domain(self, tier):
        return list(self.names if self.names is not None else NAMES)


CHARSTRS = [b"a", b"", b"a b", b'"', b"\\", b"\x00\x7f\x80\xff", b";(", b"x" * 255, b"\xc3\xa9", b"1\\0002",
            # valid UTF-8 whose characters are not printable (C1 control, zero-width space, BOM) and a
            # 4-octet character: the txt_is_utf8 style must still round-trip them
            b"\xc2\x85", b"\xe2\x80\x8b", b"\xef\xbb\xbf", b"\xf0\x9f\x98\x80",
            # maximal strings whose presentation form is far longer than 255 characters (every octet
            # needs a \DDD or \x escape): the 255 limit is on octets, not on the escaped text
            b"\x00" * 255, b'"' * 255, b"\x07" * 64]


class CharStr(Kind):
    """<character-string>: one length octet + up to 255 octets."""
    charstr = True

    def __init__(self, dom=None):
        self.dom = dom

    def enc(self, v):
        assert len(v) <= 255
        return bytes([len(v)]) + v

    def dec(self, cur):
        return bytes(cur.take(cur.u(1)))

    def domain(self, tier):
        return list(self.dom if self.dom is not None else CHARSTRS)


class Counted(Kind):
    """n-octet length + opaque octets."""

    def __init__(self, n, dom=None, nonempty_text=False):
        self.n = n
        self.dom = dom
        self.nonempty_text = nonempty_text

    def enc(self, v):
        return len(v).to_bytes(self.n, "big") + v

    def dec(self, cur):
        return bytes(cur.take(cur.u(self.n)))

    def domain(self, tier):
        if self.dom is not None:
            return list(self.dom)
        return [b"\x01\x02", b"", b"\x00", b"\xff\xff\xff", bytes(range(64)),
                b"y" * (255 if self.n == 1 else 300)]

    def text_issues(self, v):
        return ["empty field has no presentation form"] if self.nonempty_text and not v else []


OPAQUE = [b"\x01\x02\x03", b"", b"\x00", b"\xff\xff\xff", bytes(range(64)), bytes(range(256)) + b"z" * 44]


class Rest(Kind):
    """Opaque octets up to the end of the RDATA."""

    def __init__(self, dom=None, minlen=0, nonempty_text=True, why="empty", charstr=False):
        self.charstr = charstr      # shown as one quoted/escaped string in the presentation format
        self.dom = dom
        self.minlen = minlen
        self.nonempty_text = nonempty_text
        self.why = why

    def enc(self, v):
        return v

    def dec(self, cur):
        v = bytes(cur.rest())
        if len(v) < self.minlen:
            cur.soft.append("%s shorter than %d" % (self.why, self.minlen))
        return v

    def issues(self, v):
        return ["%s shorter than %d" % (self.why, self.minlen)] if len(v) < self.minlen else []

    def domain(self, tier):
        d = list(self.dom if self.dom is not None else OPAQUE)
        return [x for x in d if len(x) >= self.minlen]

    def text_issues(self, v):
        return ["empty trailing field has no presentation form"] if self.nonempty_text and not v else []


class Fixed(Kind):
    def __init__(self, n, dom=None):
        self.n = n
        self.dom = dom

    def enc(self, v):
        assert len(v) == self.n
        return v

    def dec(self, cur):
        return bytes(cur.take(self.n))

    def domain(self, tier):
        if self.dom is not None:
            return list(self.dom)
        n = self.n
        return [bytes(range(1, n + 1)), bytes(n), b"\xff" * n, bytes([0xAB, 0xCD] * n)[:n], b"\x00" * (n - 1) + b"\x01"]


class HexColon64(Fixed):
    """8 octets kept by the library as 'xxxx:xxxx:xxxx:xxxx' (RFC 6742 NID / L64)."""

    def __init__(self):
        super().__init__(8)

    def same(self, attr, v, origin=None):
        return isinstance(attr, str) and attr.lower() == ":".join(v[i:i + 2].hex() for i in (0, 2, 4, 6))


V4 = [bytes([192, 0, 2, 1]), bytes(4), b"\xff" * 4, bytes([1, 2, 3, 4]), bytes([10, 0, 0, 255]), bytes([0, 0, 0, 1])]
V6 = [bytes.fromhex("20010db8000000000000000000000001"), bytes(16), b"\xff" * 16,
      bytes.fromhex("00000000000000000000ffff01020304"), bytes.fromhex("000000000000000000000000c0000201"),
      bytes.fromhex("20010db8000100000000000100000000"), bytes.fromhex("00010000000000000000000000000000"),
      bytes.fromhex("fe800000000000000123456789abcdef"), bytes.fromhex("00000000000000000000000000010000"),
      bytes.fromhex("0001000200030004000500060007" + "0008")]


class IPv4(Kind):
    def __init__(self, tail=False, as_str=False):
        self.tail = tail        # address is "the rest of the RDATA" in the layout
        self.as_str = as_str

    def enc(self, v):
        return v

    def dec(self, cur):
        v = bytes(cur.take(4))
        return v

    def lib(self, v, origin=None):
        return str(ipaddress.IPv4Address(v)) if self.as_str else v

    def same(self, attr, v, origin=None):
        try:
            return isinstance(attr, str) and ipaddress.IPv4Address(attr).packed == v
        except ValueError:
            return False

    def domain(self, tier):
        return list(V4)


class IPv6(IPv4):
    def dec(self, cur):
        return bytes(cur.take(16))

    def lib(self, v, origin=None):
        return str(ipaddress.IPv6Address(v)) if self.as_str else v

    def same(self, attr, v, origin=None):
        try:
            return isinstance(attr, str) and ipaddress.IPv6Address(attr).packed == v
        except ValueError:
            return False

    def domain(self, tier):
        return list(V6)


def _bm(*types):
    """Reference type-bitmap builder (RFC 4034 4.1.2) from a list of type codes."""
    wins = {}
    for t in types:
        w, o = t >> 8, t & 0xFF
        b = wins.setdefault(w, bytearray(32))
        b[o >> 3] |= 0x80 >> (o & 7)
    out = []
    for w in sorted(wins):
        b = bytes(wins[w]).rstrip(b"\x00")
        out.append((w, b))
    return tuple(out)


BITMAPS = [_bm(1, 2, 6, 46, 47), (), _bm(1), _bm(255), _bm(256), _bm(65535), _bm(1, 255, 256, 1234, 32768, 65280, 65535),
           _bm(*range(1, 256)), _bm(7), _bm(8), _bm(248), _bm(731)]


class Bitmap(Kind):
    """Type bitmap windows (RFC 4034 4.1.2): (window, 1..32 octets)*, ascending windows,
    no empty blocks, no trailing zero octets."""

    def enc(self, v):
        return b"".join(bytes([w, len(b)]) + b for w, b in v)

    def dec(self, cur):
        out = []
        last = -1
        while cur.remaining() > 0:
            w = cur.u(1)
            n = cur.u(1)
            b = bytes(cur.take(n))
            if w <= last:
                cur.soft.append("bitmap windows not ascending")
            last = w
            if n == 0 or n > 32:
                cur.soft.append("bitmap block length not in 1..32")
            elif b[-1] == 0:
                cur.soft.append("bitmap block with trailing zero octet")
            out.append((w, b))
        return tuple(out)

    def issues(self, v):
        c = Cur(self.enc(v), 0, len(self.enc(v)))
        self.dec(c)
        return c.soft

    def lib(self, v, origin=None):
        return tuple(v)

    def same(self, attr, v, origin=None):
        try:
            return tuple((int(w), bytes(b)) for w, b in attr) == tuple(v)
        except Exception:
            return False

    def domain(self, tier):
        return list(BITMAPS)

    def text_issues(self, v):
        return ["bit for type 0 has no mnemonic"] if any(w == 0 and b[0] & 0x80 for w, b in v) else []


class Strings(Kind):
    """One or more <character-string>s up to the end of the RDATA (RFC 1035 3.3.14)."""
    charstr = True
    multi = True

    def enc(self, v):
        return b"".join(bytes([len(s)]) + s for s in v)

    def dec(self, cur):
        out = []
        while cur.remaining() > 0:
            out.append(bytes(cur.take(cur.u(1))))
        if not out:
            cur.soft.append("no character-string at all")
        return tuple(out)

    def issues(self, v):
        return [] if v else ["no character-string at all"]

    def lib(self, v, origin=None):
        return tuple(v)

    def same(self, attr, v, origin=None):
        return isinstance(attr, tuple) and all(type(x) is bytes for x in attr) and tuple(attr) == tuple(v)

    def domain(self, tier):
        return [(b"a",), (b"",), (b"a", b"b c"), (b"", b""), (b'"', b"\\", b";("), (b"\x00\x7f\x80\xff",),
                (b"x" * 255, b"y" * 255), (b"\xc3\xa9",), tuple(b"%d" % i for i in range(20))]


class NameList(Kind):
    """Zero or more uncompressed names up to the end of the RDATA (HIP rendezvous servers)."""
    is_name = True

    def enc(self, v):
        return b"".join(enc_name(n) for n in v)

    def dec(self, cur):
        out = []
        while cur.remaining() > 0:
            out.append(dec_name(cur))
        return tuple(out)

    def lib(self, v, origin=None):
        import dns.name
        return tuple(dns.name.Name(rel_labels(n, origin)) for n in v)

    def same(self, attr, v, origin=None):
        try:
            return tuple(abs_labels(a, origin) for a in attr) == tuple(v)
        except Exception:
            return False

    def domain(self, tier):
        return [(), ((b"a", b""),), ((b"r", b"example", b""), (b"A", b"b", b"")), (ROOT,), (NAME255, NASTY)]


# ---- LOC (RFC 1876)
class LocSize(Kind):
    """One octet: mantissa (high nibble 0-9) x 10^exponent (low nibble 0-9) centimetres.
    Abstract value = (mantissa, exponent); zero is canonically (0, 0)."""

    def enc(self, v):
        return bytes([v[0] << 4 | v[1]])

    def dec(self, cur):
        b = cur.u(1)
        m, e = b >> 4, b & 15
        if m > 9 or e > 9:
            cur.soft.append("LOC size nibble above 9")
        elif m == 0 and e != 0:
            cur.soft.append("LOC size zero mantissa with non-zero exponent")
        return (m, e)

    def lib(self, v, origin=None):
        return float(v[0] * 10 ** v[1])

    def same(self, attr, v, origin=None):
        return isinstance(attr, float) and attr == float(v[0] * 10 ** v[1])

    def domain(self, tier):
        return [(1, 2)] + [(m, e) for e in range(10) for m in range(1, 10) if (m, e) != (1, 2)] + [(0, 0)]


class LocCoord(Kind):
    """32-bit, 2^31 = equator/prime meridian, thousandths of an arc second."""

    def __init__(self, maxdeg):
        self.maxms = maxdeg * 3600000

    def enc(self, v):
        return (0x80000000 + v).to_bytes(4, "big")

    def dec(self, cur):
        v = cur.u(4) - 0x80000000
        if abs(v) > self.maxms:
            cur.soft.append("LOC coordinate out of range")
        return v

    @staticmethod
    def tup(v):
        s = 1 if v >= 0 else -1
        a = abs(v)
        return (a // 3600000, a % 3600000 // 60000, a % 60000 // 1000, a % 1000, s)

    def lib(self, v, origin=None):
        return self.tup(v)

    def same(self, attr, v, origin=None):
        try:
            d, m, s, ms, sign = attr
        except Exception:
            return False
        return all(isinstance(x, int) for x in attr) and (d * 3600000 + m * 60000 + s * 1000 + ms) * sign == v \
            and 0 <= m < 60 and 0 <= s < 60 and 0 <= ms < 1000 and sign in (1, -1)

    def domain(self, tier):
        M = self.maxms
        return [42 * 3600000 + 21 * 60000 + 54 * 1000 + 5, 0, 1, -1, M, -M, M - 1, -(M - 1), 999, 1000, 59999, 60000,
                3599999, 3600000, -3599999, 100, 10, 12 * 3600000 + 50]


class LocAlt(Kind):
    """32-bit centimetres above a base 100 000 m below the WGS 84 spheroid."""

    def enc(self, v):
        return (v + 10000000).to_bytes(4, "big")

    def dec(self, cur):
        return cur.u(4) - 10000000

    def lib(self, v, origin=None):
        return float(v)

    def same(self, attr, v, origin=None):
        return isinstance(attr, float) and attr == float(v)

    def domain(self, tier):
        return [0, 1, -1, -10000000, 0xFFFFFFFF - 10000000, 100, -100, 99, 5, 10, 50, 123456, -99999, 4284967200,
                -9999999] + list(range(2, 100)) + [-7, -29, 1029, 100057, 4284967229]


class GposStr(CharStr):
    """GPOS (RFC 1712): a printed real number in a <character-string>."""
    charstr = False

    def __init__(self, lim, dom):
        self.lim = lim
        self.dom = dom

    def issues(self, v):
        s = v[1:] if v[:1] in (b"-", b"+") else v
        ok = False
        if s.isdigit() and s.isascii():
            ok = True
        elif s.count(b".") == 1 and s != b"." and s.isascii():
            a, b = s.split(b".")
            ok = (a == b"" or a.isdigit()) and (b == b"" or b.isdigit())
        if not ok:
            return ["GPOS field is not a printed real number"]
        if self.lim is not None and abs(float(v)) > self.lim:
            return ["GPOS coordinate out of range"]
        return []

    def dec(self, cur):
        v = super().dec(cur)
        cur.soft.extend(self.issues(v))
        return v


# ---- APL (RFC 3123)
class AplItems(Kind):
    """(family u16, prefix u8, N|afdlength u8, afdpart)*; trailing zero octets of the
    address are not sent.  Abstract item = (family, negation, address-bytes(full length for
    families 1/2, raw afdpart otherwise), prefix)."""

    def enc(self, v):
        out = b""
        for fam, neg, addr, prefix in v:
            a = addr.rstrip(b"\x00")
            out += struct.pack("!HBB", fam, prefix, len(a) | (0x80 if neg else 0)) + a
        return out

    def dec(self, cur):
        out = []
        while cur.remaining() > 0:
            fam = cur.u(2)
            prefix = cur.u(1)
            l = cur.u(1)
            neg = bool(l & 0x80)
            a = bytes(cur.take(l & 0x7F))
            if a.endswith(b"\x00"):
                cur.soft.append("APL afdpart with trailing zero octet")
            if fam == 1:
                if len(a) > 4:
                    cur.soft.append("APL IPv4 afdpart longer than 4")
                if prefix > 32:
                    cur.soft.append("APL IPv4 prefix above 32")
                a = a + bytes(max(0, 4 - len(a)))
            elif fam == 2:
                if len(a) > 16:
                    cur.soft.append("APL IPv6 afdpart longer than 16")
                if prefix > 128:
                    cur.soft.append("APL IPv6 prefix above 128")
                a = a + bytes(max(0, 16 - len(a)))
            # other families: RFC 3123's wire format is family-agnostic (FAMILY, PREFIX, N, AFDLENGTH,
            # opaque AFDPART), and the library keeps such items as hex text - well-formed
            out.append((fam, neg, a, prefix))
        return tuple(out)

    def lib(self, v, origin=None):
        from dns.rdtypes.IN.APL import APLItem
        out = []
        for fam, neg, addr, prefix in v:
            if fam == 1:
                a = str(ipaddress.IPv4Address(addr))
            elif fam == 2:
                a = str(ipaddress.IPv6Address(addr))
            else:
                a = addr.hex().encode()
            out.append(APLItem(fam, neg, a, prefix))
        return tuple(out)

    def same(self, attr, v, origin=None):
        try:
            if len(attr) != len(v):
                return False
            for it, (fam, neg, addr, prefix) in zip(attr, v):
                if int(it.family) != fam or it.negation is not neg or int(it.prefix) != prefix:
                    return False
                if fam == 1:
                    if ipaddress.IPv4Address(it.address).packed != addr:
                        return False
                elif fam == 2:
                    if ipaddress.IPv6Address(it.address).packed != addr:
                        return False
                elif bytes.fromhex(it.address.decode()) != addr:
                    return False
            return True
        except Exception:
            return False

    def issues(self, v):
        return []

    def domain(self, tier):
        i4 = (1, False, bytes([192, 168, 32, 0]), 21)
        i6 = (2, False, bytes.fromhex("20010db8") + bytes(12), 32)
        return [(i4,), (), (i4, (1, True, bytes([192, 168, 38, 0]), 28)), (i6,),
                ((1, False, bytes(4), 0),), ((1, True, b"\xff" * 4, 32),), ((2, True, b"\xff" * 16, 128),),
                ((2, False, bytes(16), 0),), ((1, False, bytes([0, 0, 0, 1]), 32),), ((1, False, bytes([10, 0, 0, 0]), 8),),
                (i4, i6, (1, True, bytes([224, 0, 0, 0]), 4)),
                ((3, False, bytes([1, 2, 3]), 24),), ((0, True, b"", 0), i4), ((65535, False, b"\xff" * 5, 255),),
                ((3, True, b"\x01" * 64, 8),), ((4, False, b"\x7f" * 127, 0),)]


# ---- SVCB (RFC 9460)
K_MANDATORY, K_ALPN, K_NODEFALPN, K_PORT, K_V4, K_ECH, K_V6, K_DOHPATH, K_OHTTP, K_DOCPATH = 0, 1, 2, 3, 4, 5, 6, 7, 8, 10


class SvcParams(Kind):
    """(key u16, length u16, value)* in strictly increasing key order.  Abstract value:
    tuple of (key, v) with v = tuple of keys (mandatory) | tuple of ids (alpn, docpath) |
    None (no-default-alpn, ohttp, empty generic) | int (port) | tuple of packed addresses
    (ipv4hint/ipv6hint) | bytes (ech, unknown keys)."""

    @staticmethod
    def enc_value(k, v):
        if v is None:
            return b""
        if k == K_MANDATORY:
            return b"".join(struct.pack("!H", x) for x in v)
        if k in (K_ALPN, K_DOCPATH):
            return b"".join(bytes([len(i)]) + i for i in v)
        if k == K_PORT:
            return struct.pack("!H", v)
        if k in (K_V4, K_V6):
            return b"".join(v)
        return v

    def enc(self, v):
        out = b""
        for k, val in v:
            e = self.enc_value(k, val)
            out += struct.pack("!HH", k, len(e)) + e
        return out

    def dec(self, cur):
        out = []
        last = -1
        while cur.remaining() > 0:
            k = cur.u(2)
            c = cur.sub(cur.u(2))
            if k <= last:
                cur.soft.append("SvcParamKeys not strictly increasing")
            last = k
            n = c.remaining()
            if k == K_MANDATORY:
                if n % 2 or n == 0:
                    cur.soft.append("mandatory value length")
                    val = bytes(c.rest())
                else:
                    val = tuple(c.u(2) for _ in range(n // 2))
            elif k in (K_ALPN, K_DOCPATH):
                ids = []
                try:
                    while c.remaining() > 0:
                        ids.append(bytes(c.take(c.u(1))))
                except Hard:
                    raise Hard("alpn-id runs past the SvcParamValue")
                if any(len(i) == 0 for i in ids):
                    cur.soft.append("empty alpn-id")
                if not ids and k == K_ALPN:
                    cur.soft.append("empty alpn list")
                val = tuple(ids) if ids else None
            elif k in (K_NODEFALPN, K_OHTTP):
                if n:
                    cur.soft.append("value for a key that takes none")
                val = bytes(c.rest()) or None
            elif k == K_PORT:
                if n != 2:
                    cur.soft.append("port value length")
                    val = bytes(c.rest())
                else:
                    val = c.u(2)
            elif k in (K_V4, K_V6):
                sz = 4 if k == K_V4 else 16
                if n % sz or n == 0:
                    cur.soft.append("hint value length")
                    val = bytes(c.rest())
                else:
                    val = tuple(bytes(c.take(sz)) for _ in range(n // sz))
            elif k == K_ECH:
                val = bytes(c.rest())
                if not val:
                    cur.soft.append("empty ech")
            else:
                val = bytes(c.rest()) or None
            out.append((k, val))
        cur.soft.extend(self.cross(tuple(out)))
        return tuple(out)

    @staticmethod
    def cross(v):
        keys = [k for k, _ in v]
        out = []
        for k, val in v:
            if k == K_MANDATORY and isinstance(val, tuple):
                if list(val) != sorted(set(val)):
                    out.append("mandatory keys not strictly increasing")
                if 0 in val:
                    out.append("mandatory lists itself")
                if any(x not in keys for x in val):
                    out.append("mandatory key absent")
        if K_NODEFALPN in keys and K_ALPN not in keys:
            out.append("no-default-alpn without alpn")
        return out

    def issues(self, v):
        c = Cur(self.enc(v), 0, len(self.enc(v)))
        self.dec(c)
        return c.soft

    def lib(self, v, origin=None):
        import dns.rdtypes.svcbbase as sb
        d = {}
        for k, val in reversed(v):      # descending insertion order: the encoder has to sort
            if val is None:
                p = None
            elif k == K_MANDATORY:
                p = sb.MandatoryParam(val)
            elif k == K_ALPN:
                p = sb.ALPNParam(val)
            elif k == K_DOCPATH:
                p = sb.DoCPathParam(val)
            elif k == K_PORT:
                p = sb.PortParam(val)
            elif k == K_V4:
                p = sb.IPv4HintParam(tuple(str(ipaddress.IPv4Address(a)) for a in val))
            elif k == K_V6:
                p = sb.IPv6HintParam(tuple(str(ipaddress.IPv6Address(a)) for a in val))
            elif k == K_ECH:
                p = sb.ECHParam(val)
            else:
                p = sb.GenericParam(val)
            d[sb.ParamKey.make(k)] = p
        return d

    def same(self, attr, v, origin=None):
        try:
            if sorted(int(k) for k in attr.keys()) != [k for k, _ in v]:
                return False
            for k, val in v:
                p = attr[k]
                if val is None:
                    if p is not None:
                        return False
                elif k == K_MANDATORY:
                    if tuple(int(x) for x in p.keys) != val:
                        return False
                elif k in (K_ALPN, K_DOCPATH):
                    if tuple(p.ids) != val:
                        return False
                elif k == K_PORT:
                    if p.port != val:
                        return False
                elif k == K_V4:
                    if tuple(ipaddress.IPv4Address(a).packed for a in p.addresses) != val:
                        return False
                elif k == K_V6:
                    if tuple(ipaddress.IPv6Address(a).packed for a in p.addresses) != val:
                        return False
                elif k == K_ECH:
                    if p.ech != val:
                        return False
                elif p.value != val:
                    return False
            return True
        except Exception:
            return False

    def domain(self, tier):
        alpn = (K_ALPN, (b"h2",))
        return [
            (alpn,), (), ((K_ALPN, (b"h2", b"h3")),), ((K_ALPN, (b"f\\oo,bar", b'"q', b"\x00\xff")),),
            ((K_ALPN, (b"x" * 255,)),), (alpn, (K_NODEFALPN, None)), ((K_PORT, 0),), ((K_PORT, 65535),),
            ((K_V4, (V4[0],)),), ((K_V4, (V4[0], V4[2])),), ((K_V6, (V6[0],)),), ((K_V6, (V6[3], V6[1])),),
            ((K_ECH, b"\x00\x01\xfe\xff"),), ((K_MANDATORY, (K_ALPN, K_PORT)), alpn, (K_PORT, 443)),
            ((K_MANDATORY, (K_V4,)), (K_V4, (V4[3],))), ((K_DOHPATH, b"/dns-query{?dns}"),), ((K_DOHPATH, b'a"b\\c d\x00\xe9'),),
            ((K_OHTTP, None),), ((K_DOCPATH, (b"a", b"b,c")),), ((K_DOCPATH, None),), ((9, None),), ((9, b"x"),),
            ((65535, b"\x00\xff"),), ((65534, b" "),), ((K_MANDATORY, (65535,)), (65535, None)),
            (alpn, (K_PORT, 8443), (K_V4, (V4[0],)), (K_ECH, b"e"), (K_V6, (V6[0],)), (667, b"hello\xd2qoo")),
        ]


# ---- EDNS options (RFC 6891 6.1.2 + per-option RFCs)
O_NSID, O_ECS, O_COOKIE, O_EDE, O_REPORT, O_EDELANG, O_FCONTACT, O_FORG, O_FDB = 3, 8, 10, 15, 18, 22, 23, 24, 25
_UTF8_OPTS = {O_EDELANG: "language", O_FCONTACT: "contact", O_FORG: "organization", O_FDB: "db"}


class EdnsOptions(Kind):
    """(code u16, length u16, data)*.  Abstract option = (code, v): bytes (NSID, unknown
    codes) | (family, srclen, scopelen, prefix-bytes) (ECS, RFC 7871) | (client8,
    server) (COOKIE, RFC 7873/9018) | (info-code, text or None) (EDE, RFC 8914) | name
    labels (REPORTCHANNEL, RFC 9567) | str (UTF-8 text options)."""

    @staticmethod
    def enc_opt(code, v):
        if code == O_ECS:
            return struct.pack("!HBB", v[0], v[1], v[2]) + v[3]
        if code == O_COOKIE:
            return v[0] + v[1]
        if code == O_EDE:
            return struct.pack("!H", v[0]) + (v[1] or "").encode("utf-8")
        if code == O_REPORT:
            return enc_name(v)
        if code in _UTF8_OPTS:
            return v.encode("utf-8")
        return v

    def enc(self, v):
        out = b""
        for code, val in v:
            e = self.enc_opt(code, val)
            out += struct.pack("!HH", code, len(e)) + e
        return out

    def dec(self, cur):
        out = []
        while cur.remaining() > 0:
            code = cur.u(2)
            c = cur.sub(cur.u(2))
            if code == O_ECS:
                fam, src, scope = c.u(2), c.u(1), c.u(1)
                addr = bytes(c.rest())
                bits = {1: 32, 2: 128}.get(fam)
                if bits is None:
                    cur.soft.append("ECS family not 1/2")
                else:
                    if src > bits or scope > bits:
                        cur.soft.append("ECS prefix length above address size")
                    if len(addr) != (src + 7) // 8:
                        cur.soft.append("ECS address length does not match source prefix-length")
                    elif src % 8 and addr[-1] & (0xFF >> (src % 8)):
                        cur.soft.append("ECS non-zero bits after the prefix")
                val = (fam, src, scope, addr)
            elif code == O_COOKIE:
                cl = bytes(c.take(8)) if c.remaining() >= 8 else None
                if cl is None:
                    cur.soft.append("COOKIE shorter than 8")
                    val = bytes(c.rest())
                else:
                    sv = bytes(c.rest())
                    if sv and not 8 <= len(sv) <= 32:
                        cur.soft.append("server cookie not 8..32")
                    val = (cl, sv)
            elif code == O_EDE:
                ic = c.u(2)
                t = bytes(c.rest())
                try:
                    txt = t.decode("utf-8")
                except UnicodeDecodeError:
                    cur.soft.append("EDE text not UTF-8")
                    txt = None
                if txt is not None and txt.endswith("\x00"):
                    cur.soft.append("EDE text NUL-terminated")
                val = (ic, txt if txt else None)
            elif code == O_REPORT:
                start = c.pos
                val = dec_name(c)
                if c.remaining():
                    raise Hard("octets after the agent domain")
                if enc_name(val) != bytes(c.buf[start:c.end]):
                    cur.soft.append("compressed agent domain")
            elif code in _UTF8_OPTS:
                t = bytes(c.rest())
                try:
                    val = t.decode("utf-8")
                except UnicodeDecodeError:
                    cur.soft.append("option text not UTF-8")
                    val = t
            else:
                val = bytes(c.rest())
            out.append((code, val))
        return tuple(out)

    def issues(self, v):
        e = self.enc(v)
        c = Cur(e, 0, len(e))
        self.dec(c)
        return c.soft

    def lib(self, v, origin=None):
        import dns.edns
        import dns.name
        out = []
        for code, val in v:
            if code == O_NSID:
                o = dns.edns.NSIDOption(val)
            elif code == O_ECS:
                fam, src, scope, addr = val
                if fam == 1:
                    a = str(ipaddress.IPv4Address(addr + bytes(4 - len(addr))))
                else:
                    a = str(ipaddress.IPv6Address(addr + bytes(16 - len(addr))))
                o = dns.edns.ECSOption(a, src, scope)
            elif code == O_COOKIE:
                o = dns.edns.CookieOption(val[0], val[1])
            elif code == O_EDE:
                o = dns.edns.EDEOption(val[0], val[1])
            elif code == O_REPORT:
                o = dns.edns.ReportChannelOption(dns.name.Name(val))
            elif code == O_EDELANG:
                o = dns.edns.EDEExtraTextLanguageOption(val)
            elif code == O_FCONTACT:
                o = dns.edns.FilteringContactOption(val)
            elif code == O_FORG:
                o = dns.edns.FilteringOrganizationOption(val)
            elif code == O_FDB:
                o = dns.edns.FilteringDBOption(val)
            else:
                o = dns.edns.GenericOption(code, val)
            out.append(o)
        return tuple(out)

    def same(self, attr, v, origin=None):
        try:
            if len(attr) != len(v):
                return False
            for o, (code, val) in zip(attr, v):
                if int(o.otype) != code:
                    return False
                if code == O_NSID:
                    ok = o.nsid == val
                elif code == O_ECS:
                    fam, src, scope, addr = val
                    full = ipaddress.ip_address(o.address).packed
                    ok = (o.family, o.srclen, o.scopelen) == (fam, src, scope) and \
                        full == addr + bytes(len(full) - len(addr)) and len(full) == (4 if fam == 1 else 16)
                elif code == O_COOKIE:
                    ok = (o.client, o.server) == val
                elif code == O_EDE:
                    ok = int(o.code) == val[0] and (o.text or None) == val[1]
                elif code == O_REPORT:
                    ok = tuple(o.agent_domain.labels) == val
                elif code in _UTF8_OPTS:
                    ok = getattr(o, _UTF8_OPTS[code]) == val
                else:
                    ok = o.data == val
                if not ok:
                    return False
            return True
        except Exception:
            return False

    def domain(self, tier):
        ecs4 = (O_ECS, (1, 24, 0, bytes([192, 0, 2])))
        return [
            (), ((O_NSID, b"ns1"),), ((O_EDE, (32, "a\x00b")),), (ecs4,), ((O_NSID, b""),), ((O_NSID, b"\x00\xff"),),
            ((O_ECS, (1, 0, 0, b"")),), ((O_ECS, (1, 32, 32, bytes([1, 2, 3, 4]))),), ((O_ECS, (1, 20, 0, bytes([10, 1, 0xF0]))),),
            ((O_ECS, (2, 56, 0, bytes.fromhex("20010db8000001"))),), ((O_ECS, (2, 128, 128, V6[0])),), ((O_ECS, (2, 0, 0, b"")),),
            ((O_ECS, (2, 1, 0, b"\x80")),),
            ((O_COOKIE, (bytes(range(8)), b"")),), ((O_COOKIE, (b"\xff" * 8, bytes(range(8)))),), ((O_COOKIE, (bytes(8), bytes(range(32)))),),
            ((O_EDE, (0, None)),), ((O_EDE, (15, "blocked")),), ((O_EDE, (65535, "é 中")),),
            ((O_REPORT, (b"a", b"example", b"")),), ((O_REPORT, ROOT),), ((O_REPORT, NAME255),),
            ((O_EDELANG, "en"),), ((O_EDELANG, ""),), ((O_FCONTACT, "mailto:a@b.example"),), ((O_FORG, "Org ü"),), ((O_FDB, "db-1"),),
            ((5, b"\x08\x0d"),), ((12, bytes(31)),), ((12, b""),), ((65001, b"\xde\xad"),), ((0, b"x"),), ((65535, b""),),
            (ecs4, (O_COOKIE, (bytes(range(8)), b"")), (O_NSID, b"n"), (12, bytes(3))), ((O_NSID, b"a"), (O_NSID, b"b")),
        ]


# ------------------------------------------------------------------ type specs
class F:
    __slots__ = ("name", "kind", "attr")

    def __init__(self, name, kind, attr=None):
        self.name = name
        self.kind = kind
        self.attr = attr or name


class Spec:
    """One record type.  ``fields`` in wire order (default layout = concatenation);
    ``ctor`` gives the constructor argument order when it differs."""

    def __init__(self, name, rdtype, fields, classes=(IN,), impl=None, joint=None, cross=None,
                 ctor=None, text=True, text_cross=None, covers=None):
        self.name = name
        self.rdtype = rdtype
        self.fields = fields
        self.classes = tuple(classes)
        self.impl = impl                  # "ANY/NS" ... path of the implementing module, None = generic
        self.joint = joint or {}          # {(i, j, ...): [tuple of values, ...]} enumerated together
        self.cross = cross                # cross-field soft reasons: f(values) -> [..]
        self.ctor = ctor                  # names in constructor order
        self.text = text                  # has a presentation format parser
        self.text_cross = text_cross
        self.covers = covers or [name]

    # -- reference codec
    def encode(self, values, canonical=False):
        """Reference wire form; canonical=True gives the RFC 4034 6.2 DNSSEC canonical form
        (names of the types listed there / in RFC 6840 5.1 in lower case) for the plain
        sequential layouts."""
        if canonical:
            return b"".join(f.kind.enc(lower_labels(v) if getattr(f.kind, "canon_lower", False) else v)
                            for f, v in zip(self.fields, values))
        return b"".join(f.kind.enc(v) for f, v in zip(self.fields, values))

    def decode(self, cur):
        vals = tuple(f.kind.dec(cur) for f in self.fields)
        if cur.remaining():
            raise Hard("octets after the last field")
        return vals

    # -- library glue
    def lib_args(self, values, origin=None):
        by = {f.name: f.kind.lib(v, origin) for f, v in zip(self.fields, values)}
        return [by[n] for n in (self.ctor or [f.name for f in self.fields])]

    def attr_checks(self, values):
        return [(f.attr, f.kind, v) for f, v in zip(self.fields, values)]

    # -- enumeration
    def dims(self, tier):
        """List of (field index tuple, [value tuple, ...]); first value = default."""
        used = set()
        out = []
        for idxs, vals in self.joint.items():
            out.append((tuple(idxs), [tuple(v) for v in vals]))
            used.update(idxs)
        for i, f in enumerate(self.fields):
            if i not in used:
                out.append(((i,), [(v,) for v in dict.fromkeys(f.kind.domain(tier))]))
        out.sort(key=lambda d: d[0])
        return out

    def issues(self, values):
        out = []
        for f, v in zip(self.fields, values):
            out += f.kind.issues(v)
        if self.cross:
            out += self.cross(values)
        return out

    def text_issues(self, values):
        if not self.text:
            return ["type has no presentation-format parser"]
        out = []
        for f, v in zip(self.fields, values):
            out += f.kind.text_issues(v)
        if self.text_cross:
            out += self.text_cross(values)
        return out

    def has_names(self):
        return any(f.kind.is_name for f in self.fields)


def ref_encode(spec, values, canonical=False):
    if canonical:
        if type(spec) is not Spec:
            return spec.encode(values)      # custom layouts carry no name that is lower-cased
        return spec.encode(values, True)
    return spec.encode(values)


def ref_decode(spec, buf, off, rdlen):
    cur = Cur(buf, off, off + rdlen)
    try:
        vals = spec.decode(cur)
        if spec.cross:
            cur.soft.extend(spec.cross(vals))
    except Hard as e:
        return ("hard", str(e))
    except Unknown as e:
        return ("unknown", str(e))
    return ("ok", vals, list(dict.fromkeys(cur.soft)))


# ---- custom layouts
class HipSpec(Spec):
    """RFC 8005 5: HIT length u8, PK algorithm u8, PK length u16, HIT, PK, servers."""

    def encode(self, values):
        hit, alg, key, servers = values
        return struct.pack("!BBH", len(hit), alg, len(key)) + hit + key + self.fields[3].kind.enc(servers)

    def decode(self, cur):
        hl, alg, kl = cur.u(1), cur.u(1), cur.u(2)
        hit = bytes(cur.take(hl))
        key = bytes(cur.take(kl))
        servers = self.fields[3].kind.dec(cur)
        return (hit, alg, key, servers)


class GatewayKind(Kind):
    """(type, gateway) of IPSECKEY (RFC 4025) / AMTRELAY (RFC 8777): 0 none, 1 IPv4, 2 IPv6,
    3 uncompressed domain name."""
    is_name = True

    def enc(self, v):
        t, g = v
        return b"" if t == 0 else enc_name(g) if t == 3 else g

    def dec_typed(self, t, cur):
        if t == 0:
            return (0, None)
        if t == 1:
            return (1, bytes(cur.take(4)))
        if t == 2:
            return (2, bytes(cur.take(16)))
        if t == 3:
            return (3, dec_name(cur))
        raise Unknown("gateway type not defined")

    def lib_gw(self, v, origin):
        import dns.name
        t, g = v
        if t == 0:
            return None
        if t == 1:
            return str(ipaddress.IPv4Address(g))
        if t == 2:
            return str(ipaddress.IPv6Address(g))
        return dns.name.Name(rel_labels(g, origin))

    def same_gw(self, attr, v, origin):
        import dns.name
        t, g = v
        try:
            if t == 0:
                return attr is None
            if t == 1:
                return isinstance(attr, str) and ipaddress.IPv4Address(attr).packed == g
            if t == 2:
                return isinstance(attr, str) and ipaddress.IPv6Address(attr).packed == g
            return isinstance(attr, dns.name.Name) and abs_labels(attr, origin) == g
        except ValueError:
            return False

    def domain(self, tier):
        return [(1, V4[0]), (0, None), (1, V4[2]), (2, V6[0]), (2, V6[3]), (3, (b"gw", b"example", b"")), (3, ROOT),
                (3, (b"A", b"b", b"")), (3, NAME255), (3, NASTY)]


class _TypeOf(Kind):
    def __init__(self, field):
        self.field = field

    def same(self, attr, v, origin=None):
        return isinstance(attr, int) and attr == v[0]


class _GwOf(Kind):
    def __init__(self, gk):
        self.gk = gk

    def same(self, attr, v, origin=None):
        return self.gk.same_gw(attr, v, origin)


class IpseckeySpec(Spec):
    def encode(self, values):
        prec, alg, gw, key = values
        return bytes([prec, gw[0], alg]) + self.fields[2].kind.enc(gw) + key

    def decode(self, cur):
        prec, gt, alg = cur.u(1), cur.u(1), cur.u(1)
        gw = self.fields[2].kind.dec_typed(gt, cur)
        key = bytes(cur.rest())
        return (prec, alg, gw, key)

    def lib_args(self, values, origin=None):
        prec, alg, gw, key = values
        return [prec, gw[0], alg, self.fields[2].kind.lib_gw(gw, origin), key]

    def attr_checks(self, values):
        prec, alg, gw, key = values
        gk = self.fields[2].kind
        u8 = UInt(8)
        return [("precedence", u8, prec), ("algorithm", u8, alg), ("gateway_type", _TypeOf(gk), gw),
                ("gateway", _GwOf(gk), gw), ("key", Rest(), key)]


class AmtrelaySpec(Spec):
    def encode(self, values):
        prec, d, gw = values
        return bytes([prec, (0x80 if d else 0) | gw[0]]) + self.fields[2].kind.enc(gw)

    def decode(self, cur):
        prec, b = cur.u(1), cur.u(1)
        gw = self.fields[2].kind.dec_typed(b & 0x7F, cur)
        if cur.remaining():
            raise Hard("octets after the relay")
        return (prec, bool(b & 0x80), gw)

    def lib_args(self, values, origin=None):
        prec, d, gw = values
        return [prec, d, gw[0], self.fields[2].kind.lib_gw(gw, origin)]

    def attr_checks(self, values):
        prec, d, gw = values
        gk = self.fields[2].kind
        return [("precedence", UInt(8), prec), ("discovery_optional", Bool(), d), ("relay_type", _TypeOf(gk), gw),
                ("relay", _GwOf(gk), gw)]


class Bool(Kind):
    def same(self, attr, v, origin=None):
        return attr is v

    def domain(self, tier):
        return [False, True]


class IsdnSpec(Spec):
    """RFC 1183 3.2: <ISDN-address> [<sa>]; an absent sa is modelled as b""."""

    def encode(self, values):
        a, sa = values
        return bytes([len(a)]) + a + (bytes([len(sa)]) + sa if sa else b"")

    def decode(self, cur):
        a = bytes(cur.take(cur.u(1)))
        sa = b""
        if cur.remaining():
            sa = bytes(cur.take(cur.u(1)))
            if not sa:
                cur.soft.append("ISDN explicit empty subaddress")
        if cur.remaining():
            raise Hard("octets after the subaddress")
        return (a, sa)


class LocSpec(Spec):
    """RFC 1876 2: VERSION SIZE HORIZ_PRE VERT_PRE LATITUDE LONGITUDE ALTITUDE."""

    def encode(self, values):
        lat, lon, alt, size, hp, vp = values
        k = {f.name: f.kind for f in self.fields}
        return b"\x00" + k["size"].enc(size) + k["hprec"].enc(hp) + k["vprec"].enc(vp) + \
            k["latitude"].enc(lat) + k["longitude"].enc(lon) + k["altitude"].enc(alt)

    def decode(self, cur):
        k = {f.name: f.kind for f in self.fields}
        ver = cur.u(1)
        if ver != 0:
            cur.soft.append("LOC version not 0")
        size = k["size"].dec(cur)
        hp = k["hprec"].dec(cur)
        vp = k["vprec"].dec(cur)
        lat = k["latitude"].dec(cur)
        lon = k["longitude"].dec(cur)
        alt = k["altitude"].dec(cur)
        if cur.remaining():
            raise Hard("octets after a version 0 LOC")
        return (lat, lon, alt, size, hp, vp)


class OptSpec(Spec):
    pass


# ---- cross-field rules
DS_LEN = {1: 20, 2: 32, 3: 32, 4: 48}


def ds_cross(cds):
    def f(values):
        dt, dg = values[2], values[3]
        if dt == 0:
            if cds and dg == b"\x00":
                return []
            return ["DS digest type 0 is reserved"]
        if dt in DS_LEN and len(dg) != DS_LEN[dt]:
            return ["DS digest length does not match the digest type"]
        return []
    return f


def ds_joint(cds):
    vals = [(2, bytes(range(32))), (1, bytes(range(20))), (3, b"\xff" * 32), (4, bytes(range(48))), (5, b"\x01"),
            (255, bytes(range(70))), (6, bytes(64)), (2, bytes(32))]
    if cds:
        vals.append((0, b"\x00"))
    return vals


def zonemd_cross(values):
    out = []
    if values[1] == 0:
        out.append("ZONEMD scheme 0 is reserved")
    if values[2] == 0:
        out.append("ZONEMD hash algorithm 0 is reserved")
    want = {1: 48, 2: 64}.get(values[2])
    if want is not None and len(values[3]) != want:
        out.append("ZONEMD digest length does not match the hash algorithm")
    if len(values[3]) < 12:
        out.append("ZONEMD digest shorter than 12 octets")
    return out


def svcb_cross(values):
    if values[0] == 0 and values[2]:
        return ["SvcParams in AliasMode"]
    return []


def caa_cross(values):
    tag = values[1]
    if not tag or not (tag.isalnum() and tag.isascii()):
        return ["CAA tag not 1+ ASCII letters/digits"]
    return []


def hip_text(values):
    out = []
    if not values[0]:
        out.append("empty HIT has no presentation form")
    if not values[2]:
        out.append("empty public key has no presentation form")
    return out


def nsec3_text(values):
    return ["empty next hashed owner has no presentation form"] if not values[4] else []


def key_text(values):
    # RFC 2535 7.1: with flags type bits = NOKEY there is no key field in the text form
    if values[0] & 0xC000 == 0xC000 and values[3]:
        return ["KEY with NOKEY flags cannot show a key"]
    if values[0] & 0xC000 != 0xC000 and not values[3]:
        return ["empty key has no presentation form"]
    return []


def wks_text(values):
    return ["WKS bitmap with trailing zero octet"] if values[2].endswith(b"\x00") else []


def apl_text(values):
    return []


def tkey_text(values):
    return ["empty key has no presentation form"] if not values[5] else []


def ipseckey_text(values):
    return ["empty key has no presentation form"] if not values[3] else []


ALG = UInt(8, [8, 0, 1, 13, 254, 255, 5])
U8, U16, U32 = UInt(8), UInt(16), UInt(32)
RRTYPE = UInt(16, [1, 0, 2, 46, 255, 256, 731, 65280, 65535, 47])


def N(**kw):
    return Name(**kw)


def _specs():
    S = []
    add = S.append
    ANYC = (IN, CH, CLASS4711)

    add(Spec("A", 1, [F("address", IPv4(tail=True))], impl="IN/A"))
    add(Spec("AAAA", 28, [F("address", IPv6(tail=True))], impl="IN/AAAA"))
    add(Spec("CH-A", 1, [F("domain", N()), F("address", U16)], classes=(CH,), impl="CH/A"))
    for nm, t, low in (("NS", 2, True), ("CNAME", 5, True), ("PTR", 12, True), ("DNAME", 39, True)):
        add(Spec(nm, t, [F("target", N(canon_lower=low))], classes=ANYC, impl="ANY/" + nm))
    add(Spec("NSAP-PTR", 23, [F("target", N())], impl="IN/NSAP_PTR"))
    ttl = UInt(32)
    add(Spec("SOA", 6, [F("mname", N(canon_lower=True)), F("rname", N(canon_lower=True)), F("serial", U32),
                        F("refresh", ttl), F("retry", ttl), F("expire", ttl), F("minimum", ttl)], classes=ANYC, impl="ANY/SOA"))
    for nm, t, cls, impl in (("MX", 15, ANYC, "ANY/MX"), ("AFSDB", 18, ANYC, "ANY/AFSDB"), ("RT", 21, ANYC, "ANY/RT"),
                             ("KX", 36, (IN,), "IN/KX")):
        add(Spec(nm, t, [F("preference", U16), F("exchange", N(canon_lower=True))], classes=cls, impl=impl))
    add(Spec("LP", 107, [F("preference", U16), F("fqdn", N())], classes=ANYC, impl="ANY/LP"))
    add(Spec("PX", 26, [F("preference", U16), F("map822", N(canon_lower=True)), F("mapx400", N(canon_lower=True))], impl="IN/PX"))
    add(Spec("RP", 17, [F("mbox", N(canon_lower=True)), F("txt", N(canon_lower=True))], classes=ANYC, impl="ANY/RP"))
    for nm, t in (("TXT", 16), ("SPF", 99), ("AVC", 258), ("NINFO", 56), ("RESINFO", 261), ("WALLET", 262)):
        add(Spec(nm, t, [F("strings", Strings())], classes=ANYC if nm == "TXT" else (IN,), impl="ANY/" + nm))
    add(Spec("HINFO", 13, [F("cpu", CharStr()), F("os", CharStr())], classes=ANYC, impl="ANY/HINFO"))
    add(Spec("X25", 19, [F("address", CharStr())], impl="ANY/X25"))
    add(IsdnSpec("ISDN", 20, [F("address", CharStr()), F("subaddress", CharStr())], impl="ANY/ISDN"))
    add(Spec("GPOS", 27, [F("latitude", GposStr(90.0, [b"0", b"-90", b"90.0", b"+1.5", b".5", b"1.", b"-0.0", b"89.999999"])),
                          F("longitude", GposStr(180.0, [b"0", b"-180", b"180.0", b"+1.5", b".25", b"179."])),
                          F("altitude", GposStr(None, [b"0", b"-10000.5", b"99999999.99", b"+1", b".5"]))], impl="ANY/GPOS"))
    add(Spec("SRV", 33, [F("priority", U16), F("weight", U16), F("port", U16), F("target", N(canon_lower=True))], impl="IN/SRV"))
    add(Spec("NAPTR", 35, [F("order", U16), F("preference", U16), F("flags", CharStr()), F("service", CharStr()),
                           F("regexp", CharStr()), F("replacement", N(canon_lower=True))], impl="IN/NAPTR"))
    add(Spec("URI", 256, [F("priority", U16), F("weight", U16),
                          F("target", Rest([b"https://example/", b"a", b'a"b', b"a\\b", b"a b", b"\xff", b"\xc3\xa9", b"\x00",
                                            b"x" * 300, b";(", b"\x7f"], minlen=1, why="URI target", charstr=True))], impl="ANY/URI"))
    add(Spec("CAA", 257, [F("flags", U8), F("tag", CharStr([b"issue", b"a", b"0", b"Z9", b"x" * 255, b"issuewild"])),
                          F("value", Rest([b"ca.example", b"", b"a b", b'"', b"\\", b"\x00\x7f\x80\xff", b";(", b"x" * 300, b"\xc3\xa9"],
                                          nonempty_text=False, charstr=True))], cross=caa_cross, classes=ANYC, impl="ANY/CAA"))
    for nm, t, cds in (("DS", 43, False), ("CDS", 59, True), ("DLV", 32769, False)):
        add(Spec(nm, t, [F("key_tag", U16), F("algorithm", ALG), F("digest_type", U8), F("digest", Rest())],
                 joint={(2, 3): ds_joint(cds)}, cross=ds_cross(cds), classes=ANYC if nm == "DS" else (IN,), impl="ANY/" + nm))
    flags = UInt(16, [257, 0, 256, 1, 0x8000, 0xC000, 0xFFFF, 0x0080, 0x4000])
    for nm, t in (("DNSKEY", 48), ("CDNSKEY", 60), ("KEY", 25)):
        add(Spec(nm, t, [F("flags", flags), F("protocol", UInt(8, [3, 0, 1, 255, 4])), F("algorithm", ALG),
                         F("key", Rest(nonempty_text=(nm != "KEY")))],
                 classes=ANYC if nm == "DNSKEY" else (IN,), impl="ANY/" + nm, text_cross=key_text if nm == "KEY" else None))
    sigtime = UInt(32, [1700000000, 0, 1, 0x7FFFFFFF, 0x80000000, 0xFFFFFFFF, 86399, 951782400, 2147483648 + 86400 * 365])
    for nm, t in (("RRSIG", 46), ("SIG", 24)):
        add(Spec(nm, t, [F("type_covered", RRTYPE), F("algorithm", ALG), F("labels", U8), F("original_ttl", ttl),
                         F("expiration", sigtime), F("inception", sigtime), F("key_tag", U16),
                         F("signer", N(canon_lower=True)), F("signature", Rest())],
                 classes=ANYC if nm == "RRSIG" else (IN,), impl="ANY/" + nm))
    add(Spec("NSEC", 47, [F("next", N()), F("windows", Bitmap())], classes=ANYC, impl="ANY/NSEC"))
    salt = Counted(1, [b"\xaa\xbb", b"", b"\x00", b"-", b"\xff" * 255, bytes(range(8))])
    nxt = Counted(1, [bytes(range(20)), b"", b"\x00", b"\xff", b"\xff" * 255, bytes(range(1, 6)), bytes(19), b"ab", b"abc", b"abcd"])
    add(Spec("NSEC3", 50, [F("algorithm", UInt(8, [1, 0, 255, 2])), F("flags", UInt(8, [0, 1, 255, 128])), F("iterations", U16),
                           F("salt", salt), F("next", nxt), F("windows", Bitmap())], classes=ANYC, impl="ANY/NSEC3",
             text_cross=nsec3_text))
    add(Spec("NSEC3PARAM", 51, [F("algorithm", UInt(8, [1, 0, 255, 2])), F("flags", UInt(8, [0, 1, 255])), F("iterations", U16),
                                F("salt", salt)], impl="ANY/NSEC3PARAM"))
    add(Spec("CSYNC", 62, [F("serial", U32), F("flags", U16), F("windows", Bitmap())], impl="ANY/CSYNC"))
    add(Spec("SSHFP", 44, [F("algorithm", U8), F("fp_type", U8), F("fingerprint", Rest())], impl="ANY/SSHFP"))
    for nm, t in (("TLSA", 52), ("SMIMEA", 53)):
        add(Spec(nm, t, [F("usage", U8), F("selector", U8), F("mtype", U8), F("cert", Rest())], impl="ANY/" + nm))
    add(Spec("CERT", 37, [F("certificate_type", UInt(16, [1, 0, 2, 8, 9, 253, 254, 255, 65535, 256])), F("key_tag", U16),
                          F("algorithm", ALG), F("certificate", Rest())], impl="ANY/CERT"))
    add(Spec("ZONEMD", 63, [F("serial", U32), F("scheme", UInt(8, [1, 2, 255, 240])), F("hash_algorithm", U8), F("digest", Rest())],
             joint={(2, 3): [(1, bytes(range(48))), (2, bytes(range(64))), (3, bytes(12)), (255, bytes(range(100))), (240, b"\xff" * 13),
                             (1, b"\xff" * 48)]}, cross=zonemd_cross, impl="ANY/ZONEMD"))
    add(Spec("OPENPGPKEY", 61, [F("key", Rest())], impl="ANY/OPENPGPKEY"))
    add(Spec("DHCID", 49, [F("data", Rest())], impl="IN/DHCID"))
    add(Spec("BRID", 68, [F("value", Rest())], impl="ANY/BRID"))
    add(Spec("HHIT", 67, [F("value", Rest())], impl="ANY/HHIT"))
    add(Spec("NSAP", 22, [F("address", Rest(nonempty_text=False))], impl="IN/NSAP"))
    add(Spec("EUI48", 108, [F("eui", Fixed(6))], impl="ANY/EUI48"))
    add(Spec("EUI64", 109, [F("eui", Fixed(8))], impl="ANY/EUI64"))
    add(Spec("L32", 105, [F("preference", U16), F("locator32", IPv4(tail=True))], impl="ANY/L32"))
    add(Spec("L64", 106, [F("preference", U16), F("locator64", HexColon64())], impl="ANY/L64"))
    add(Spec("NID", 104, [F("preference", U16), F("nodeid", HexColon64())], impl="ANY/NID"))
    add(HipSpec("HIP", 55, [F("hit", Counted(1, [bytes(range(16)), b"", b"\x00", b"\xff" * 255, b"\x01"])), F("algorithm", U8),
                            F("key", Counted(2, [bytes(range(33)), b"", b"\x00", b"\xff" * 300, b"ab", b"abc"])),
                            F("servers", NameList())], impl="ANY/HIP", text_cross=hip_text))
    add(IpseckeySpec("IPSECKEY", 45, [F("precedence", U8), F("algorithm", UInt(8, [2, 0, 1, 3, 255])), F("gateway", GatewayKind()),
                                      F("key", Rest())], impl="IN/IPSECKEY", text_cross=ipseckey_text))
    add(AmtrelaySpec("AMTRELAY", 260, [F("precedence", U8), F("discovery_optional", Bool()), F("relay", GatewayKind())],
                     impl="ANY/AMTRELAY"))
    add(Spec("APL", 42, [F("items", AplItems())], impl="IN/APL"))
    add(Spec("WKS", 11, [F("address", IPv4()), F("protocol", UInt(8, [6, 17, 0, 255, 1])),
                         F("bitmap", Rest([b"\x00\x00\x00\x40", b"", b"\x80", b"\x01", b"\xff\xff", bytes(31) + b"\x01", b"\x00\x00"],
                                          nonempty_text=False))], impl="IN/WKS", text_cross=wks_text))
    add(LocSpec("LOC", 29, [F("latitude", LocCoord(90)), F("longitude", LocCoord(180)), F("altitude", LocAlt()),
                            F("size", LocSize()), F("hprec", LocSize(), "horizontal_precision"),
                            F("vprec", LocSize(), "vertical_precision")], classes=ANYC, impl="ANY/LOC"))
    for nm, t in (("SVCB", 64), ("HTTPS", 65)):
        sk = SvcParams()
        dom = sk.domain("t")
        joint = [(1, p) for p in dom] + [(0, ()), (65535, dom[0]), (16, dom[-1])]
        add(Spec(nm, t, [F("priority", U16), F("target", N()), F("params", sk)], joint={(0, 2): joint}, cross=svcb_cross,
                 impl="IN/" + nm))
    free = N(names=NAMES_FREE + [(b"hmac-sha256", b""), (b"HMAC-MD5", b"SIG-ALG", b"REG", b"INT", b"")], relativizes=False)
    add(Spec("TKEY", 249, [F("algorithm", free), F("inception", U32), F("expiration", U32), F("mode", UInt(16, [3, 0, 1, 5, 65535])),
                           F("error", UInt(16, [0, 16, 17, 21, 65535])), F("key", Counted(2)), F("other", Counted(2))],
             classes=(255, IN), impl="ANY/TKEY", text_cross=tkey_text))
    add(Spec("TSIG", 250, [F("algorithm", free), F("time_signed", UInt(48)), F("fudge", UInt(16, [300, 0, 65535])),
                           F("mac", Counted(2)), F("original_id", U16),
                           F("error", UInt(16, [0, 16, 17, 18, 22, 4095, 1, 23], maxok=4095)),
                           F("other", Counted(2, [b"", bytes(6), b"\xff" * 6, b"\x01"]))], classes=(255, IN), impl="ANY/TSIG"))
    add(Spec("DSYNC", 66, [F("rrtype", RRTYPE), F("scheme", UInt(8, [1, 0, 2, 255])), F("port", U16), F("target", N())],
             impl="ANY/DSYNC"))
    add(OptSpec("OPT", 41, [F("options", EdnsOptions())], classes=(1232, 512, 65535), impl="ANY/OPT", text=False))
    # RFC 3597 generic / unknown
    for nm, t, cls in (("TYPE731", 731, ANYC), ("TYPE65280", 65280, ANYC), ("AAAA-in-CH", 28, (CH, CLASS4711)),
                       ("A-in-CLASS4711", 1, (CLASS4711,)), ("SRV-in-CH", 33, (CH,))):
        add(Spec(nm, t, [F("data", Rest(nonempty_text=False))], classes=cls, impl=None))
    return S


SPECS = _specs()
BY_NAME = {s.name: s for s in SPECS}


def implemented_types(repo=None):
    """Scan <repo>/dns/rdtypes/{ANY,IN,CH} for type modules: ['ANY/NS', 'IN/A', ...]."""
    repo = repo or os.environ.get("DNSPYTHON_REPO", "/repo")
    out = []
    for d in ("ANY", "IN", "CH"):
        p = os.path.join(repo, "dns", "rdtypes", d)
        for fn in sorted(os.listdir(p)):
            if fn.endswith(".py") and not fn.startswith("_"):
                out.append(d + "/" + fn[:-3])
    return out


def coverage(repo=None):
    impl = implemented_types(repo)
    have = {s.impl for s in SPECS if s.impl}
    return {"implemented": len(impl), "covered": sorted(x for x in impl if x in have),
            "not_covered": sorted(x for x in impl if x not in have),
            "generic_unknown": [s.name for s in SPECS if s.impl is None]}


def default_values(spec, tier="quick"):
    vals = [None] * len(spec.fields)
    for idxs, dom in spec.dims(tier):
        for i, v in zip(idxs, dom[0]):
            vals[i] = v
    return tuple(vals)


def enumerate_values(spec, tier, k, full_limit=0):
    """k-deviation over the dimensions of spec (full product when below full_limit).
    Yields well-formed value tuples only (cross-field rules are part of the schema)."""
    import itertools
    dims = spec.dims(tier)
    size = 1
    for _, d in dims:
        size *= len(d)
    base = [d[0] for _, d in dims]

    def build(choice):
        vals = [None] * len(spec.fields)
        for (idxs, _), tup in zip(dims, choice):
            for i, v in zip(idxs, tup):
                vals[i] = v
        return tuple(vals)

    if size <= full_limit:
        for choice in itertools.product(*[d for _, d in dims]):
            yield build(choice)
        return
    yield build(base)
    n = len(dims)
    for kk in range(1, min(k, n) + 1):
        for which in itertools.combinations(range(n), kk):
            for alts in itertools.product(*[dims[w][1][1:] for w in which]):
                c = list(base)
                for w, a in zip(which, alts):
                    c[w] = a
                yield build(c)
