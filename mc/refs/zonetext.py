"""Independent master-file writer, record wire encoder and $GENERATE expander for C09.

Written from RFC 1035 section 5.1 (master file format), RFC 3597 section 5 (generic
type/class/rdata syntax), RFC 2308 section 4 ($TTL) and the BIND 9 ARM description of
$GENERATE.  Nothing here imports dnspython: names are tuples of label bytes (absolute,
root label omitted), a record is a dict

    {"owner": name, "ttl": int, "type": "MX", "code": 15, "covers": 0,
     "text": [field, ...], "wire": [part, ...]}

text fields:  ("n", name)  domain name          ("t", str)  opaque token
              ("s", bytes) character-string     ("x", hex)  hex blob (may be chunked)
              ("b", b64)   base64 blob (may be chunked)
wire parts:   ("n", name)  uncompressed name    ("w", bytes) literal octets
"""
from __future__ import annotations

import base64
import calendar
import ipaddress
import struct

# --------------------------------------------------------------------------- names
SPECIAL = b'"().;\\@$'


def esc_label(label: bytes, ddd: bool = False) -> str:
    out = []
    for c in label:
        if c in SPECIAL:
            out.append("\\%03d" % c if ddd else "\\" + chr(c))
        elif 0x21 <= c <= 0x7E:
            out.append(chr(c))
        else:
            out.append("\\%03d" % c)
    return "".join(out)


def lower(name):
    return tuple(l.lower() for l in name)


def is_under(name, origin) -> bool:
    k = len(origin)
    return len(name) >= k and (k == 0 or lower(name[len(name) - k:]) == lower(origin))


def name_text(name, cur_origin=None, relative=False, ddd=False) -> str:
    """Render `name`; relative to cur_origin when asked and possible ('@' = the origin)."""
    if relative and cur_origin is not None and is_under(name, cur_origin):
        rest = name[:len(name) - len(cur_origin)]
        if not rest:
            return "@"
        return ".".join(esc_label(l, ddd) for l in rest)
    if not name:
        return "."
    return ".".join(esc_label(l, ddd) for l in name) + "."


def name_wire(name) -> bytes:
    return b"".join(bytes([len(l)]) + l for l in name) + b"\x00"


def parse_plain_name(text: str, cur_origin):
    """Names made of [A-Za-z0-9-_*] labels only (what the $GENERATE templates produce)."""
    if text == "@":
        return tuple(cur_origin)
    if text == ".":
        return ()
    absolute = text.endswith(".")
    if absolute:
        text = text[:-1]
    labels = tuple(x.encode() for x in text.split("."))
    assert all(labels), text
    return labels if absolute else labels + tuple(cur_origin)


# --------------------------------------------------------------------------- strings
def cstring(b: bytes, quoted: bool = True) -> str:
    safe = bool(b) and all(0x21 <= c <= 0x7E and c not in SPECIAL for c in b)
    if not quoted and safe:
        return b.decode()
    out = []
    for c in b:
        if c in b'"\\':
            out.append("\\" + chr(c))
        elif 0x20 <= c <= 0x7E:
            out.append(chr(c))
        else:
            out.append("\\%03d" % c)
    return '"' + "".join(out) + '"'


def ttl_units(n: int) -> str:
    """BIND units spelling of a TTL (falls back to digits for 0)."""
    if n == 0:
        return "0"
    out = []
    for unit, size in (("w", 604800), ("d", 86400), ("h", 3600), ("m", 60), ("s", 1)):
        q, n = divmod(n, size)
        if q:
            out.append("%d%s" % (q, unit))
    return "".join(out)


# --------------------------------------------------------------------------- records
def u8(v):
    return struct.pack("!B", v)


def u16(v):
    return struct.pack("!H", v)


def u32(v):
    return struct.pack("!I", v)


TYPES = {"A": 1, "NS": 2, "CNAME": 5, "SOA": 6, "PTR": 12, "MX": 15, "TXT": 16, "AAAA": 28,
         "SRV": 33, "DS": 43, "RRSIG": 46, "NSEC": 47, "DNSKEY": 48, "KEY": 25,
         "NSEC3": 50, "HINFO": 13, "TYPE65280": 65280}


def rec(owner, ttl, rtype, text, wire, covers=0):
    return {"owner": tuple(owner), "ttl": ttl, "type": rtype, "code": TYPES[rtype],
            "covers": covers, "text": text, "wire": wire}


def A(owner, ttl, ip):
    return rec(owner, ttl, "A", [("t", ip)], [("w", ipaddress.IPv4Address(ip).packed)])


def AAAA(owner, ttl, ip):
    return rec(owner, ttl, "AAAA", [("t", ip)], [("w", ipaddress.IPv6Address(ip).packed)])


def NS(owner, ttl, target):
    return rec(owner, ttl, "NS", [("n", tuple(target))], [("n", tuple(target))])


def CNAME(owner, ttl, target):
    return rec(owner, ttl, "CNAME", [("n", tuple(target))], [("n", tuple(target))])


def PTR(owner, ttl, target):
    return rec(owner, ttl, "PTR", [("n", tuple(target))], [("n", tuple(target))])


def MX(owner, ttl, pref, target):
    return rec(owner, ttl, "MX", [("t", str(pref)), ("n", tuple(target))],
               [("w", u16(pref)), ("n", tuple(target))])


def SRV(owner, ttl, prio, weight, port, target):
    return rec(owner, ttl, "SRV",
               [("t", str(prio)), ("t", str(weight)), ("t", str(port)), ("n", tuple(target))],
               [("w", u16(prio) + u16(weight) + u16(port)), ("n", tuple(target))])


def TXT(owner, ttl, *strings):
    return rec(owner, ttl, "TXT", [("s", s) for s in strings],
               [("w", b"".join(u8(len(s)) + s for s in strings))])


def HINFO(owner, ttl, cpu, os_):
    return rec(owner, ttl, "HINFO", [("s", cpu), ("s", os_)],
               [("w", u8(len(cpu)) + cpu + u8(len(os_)) + os_)])


def SOA(owner, ttl, mname, rname, serial, refresh, retry, expire, minimum):
    nums = (serial, refresh, retry, expire, minimum)
    return rec(owner, ttl, "SOA",
               [("n", tuple(mname)), ("n", tuple(rname))] + [("t", str(v)) for v in nums],
               [("n", tuple(mname)), ("n", tuple(rname)), ("w", b"".join(u32(v) for v in nums))])


def DS(owner, ttl, tag, alg, dtype, hexdigest):
    return rec(owner, ttl, "DS",
               [("t", str(tag)), ("t", str(alg)), ("t", str(dtype)), ("x", hexdigest)],
               [("w", u16(tag) + u8(alg) + u8(dtype) + bytes.fromhex(hexdigest))])


def DNSKEY(owner, ttl, flags, proto, alg, key: bytes, rtype="DNSKEY"):
    return rec(owner, ttl, rtype,
               [("t", str(flags)), ("t", str(proto)), ("t", str(alg)),
                ("b", base64.b64encode(key).decode())],
               [("w", u16(flags) + u8(proto) + u8(alg) + key)])


def _ts(text):  # YYYYMMDDHHMMSS -> seconds
    import time
    return calendar.timegm(time.strptime(text, "%Y%m%d%H%M%S"))


def RRSIG(owner, ttl, covered, alg, labels, ottl, exp, inc, tag, signer, sig: bytes):
    return rec(owner, ttl, "RRSIG",
               [("t", covered), ("t", str(alg)), ("t", str(labels)), ("t", str(ottl)),
                ("t", exp), ("t", inc), ("t", str(tag)), ("n", tuple(signer)),
                ("b", base64.b64encode(sig).decode())],
               [("w", u16(TYPES[covered]) + u8(alg) + u8(labels) + u32(ottl) + u32(_ts(exp))
                 + u32(_ts(inc)) + u16(tag)), ("n", tuple(signer)), ("w", sig)],
               covers=TYPES[covered])


def type_bitmap(types) -> bytes:
    windows = {}
    for t in types:
        code = TYPES[t]
        windows.setdefault(code >> 8, set()).add(code & 0xFF)
    out = b""
    for w in sorted(windows):
        bits = bytearray(32)
        for b in windows[w]:
            bits[b >> 3] |= 0x80 >> (b & 7)
        while bits and bits[-1] == 0:
            bits.pop()
        out += u8(w) + u8(len(bits)) + bytes(bits)
    return out


def NSEC(owner, ttl, nxt, types):
    return rec(owner, ttl, "NSEC", [("n", tuple(nxt))] + [("t", t) for t in types],
               [("n", tuple(nxt)), ("w", type_bitmap(types))])


def UNKNOWN(owner, ttl, data: bytes):
    """TYPE65280: only the RFC 3597 generic form exists."""
    return rec(owner, ttl, "TYPE65280", [("t", "\\#"), ("t", str(len(data))), ("x", data.hex())],
               [("w", data)])


def wire_of(r) -> bytes:
    return b"".join(name_wire(v) if k == "n" else v for k, v in r["wire"])


def wire_names(r):
    return [v for k, v in r["wire"] if k == "n"]


# --------------------------------------------------------------------------- $GENERATE
def gen_format(value: int, width: int, base: str) -> str:
    """BIND ARM: ${offset[,width[,base]]}; width = zero-padded *minimum* field width;
    nibble mode = reversed hex digits, one per label, width counts the separators."""
    assert value >= 0
    if base == "d":
        return "%0*d" % (width, value)
    if base == "o":
        return "%0*o" % (width, value)
    if base == "x":
        return "%0*x" % (width, value)
    if base == "X":
        return "%0*X" % (width, value)
    digits = "0123456789abcdef" if base == "n" else "0123456789ABCDEF"
    out = ""
    while True:
        out += digits[value & 0xF]
        value >>= 4
        if width > 0:
            width -= 1
        if width > 0 or value != 0:
            out += "."
            if width > 0:
                width -= 1
        if value == 0 and width == 0:
            return out


def gen_subst(template: str, i: int) -> str:
    """Every '$' reference of the template is replaced independently."""
    out = ""
    p = 0
    while p < len(template):
        c = template[p]
        if c != "$":
            out += c
            p += 1
            continue
        p += 1
        offset, width, base = 0, 0, "d"
        if p < len(template) and template[p] == "{":
            q = template.index("}", p)
            parts = template[p + 1:q].split(",")
            offset = int(parts[0])
            if len(parts) > 1:
                width = int(parts[1])
            if len(parts) > 2:
                base = parts[2]
            p = q + 1
        out += gen_format(i + offset, width, base)
    return out


def gen_range(start, stop, step):
    return range(start, stop + 1, step)


def gen_range_text(start, stop, step, always_step=False):
    if step == 1 and not always_step:
        return "%d-%d" % (start, stop)
    return "%d-%d/%d" % (start, stop, step)


# --------------------------------------------------------------------------- writer
COMMENTS = ["; plain comment", ";", ';; "unbalanced quote', "; ( open paren", "; ) close paren",
            "; back\\slash \\", "; $TTL 5", ";@ $ORIGIN nowhere.", ";\ttab\tcomment"]


class Writer:
    """Renders a list of items (records, $GENERATE blocks) as one master file under a
    dict of spelling options.

    Options (all default 0):
      own   1: owner left blank when equal to the previous record's owner
      ttl   0 explicit; 1 one default ($TTL line, or the API default_ttl for a reader
            without directives); 2 inherited where RFC 1035 and RFC 2308/BIND/dnspython
            readings agree; 3 a fresh $TTL before every change of TTL, no TTL on records
      cls   1: class omitted
      order 1: class before TTL
      rel   1: names relative to the current $ORIGIN where possible
      mid   1: '$ORIGIN <sub>' (absolute argument) around the records flagged blk;
            2: same with a relative argument
      par   0 single line; 1 '(' after the type; 2 '(' after the owner; 3 around the tail
      com   1: comments, comment-only lines and blank lines
      gen   1: $GENERATE lines instead of their expansion
      units 1: TTLs in BIND unit notation
      lc    1: lower-case class/type mnemonics and directives
      gm    1: CLASSn / TYPEn mnemonics (RFC 3597)
      gr    1: '\\# len hex' rdata for records without names below the zone origin;
            2: for every record
      ws    1: tabs / runs of blanks / trailing blanks
      uq    1: character-strings unquoted where that is safe
      esc   1: special octets of names written \\DDD instead of \\X
      hdr   1/2: file starts with '$ORIGIN <zone origin>'
      noeol 1: no newline after the last line
      chunk n: hex/base64 blobs split into n-character chunks (0 = one token)
    """

    def __init__(self, origin, opts, directives=True, sub=None):
        self.o = dict(opts)
        self.zone_origin = tuple(origin)
        self.cur_origin = tuple(origin)
        self.directives = directives
        self.sub = tuple(sub) if sub is not None else None
        self.lines = []
        self.last_owner = None
        self.dollar = None        # $TTL / API default in force
        self.soa_default = None   # SOA minimum taken as default by readers that do so
        self.last_ttl = None      # last explicit TTL; "?" = unknown/ambiguous
        self.ncomment = 0
        self.api_default_ttl = None

    def opt(self, k):
        return self.o.get(k, 0)

    # ---- helpers
    def sep(self):
        return "\t" if self.opt("ws") else " "

    def comment(self):
        c = COMMENTS[self.ncomment % len(COMMENTS)]
        self.ncomment += 1
        return c

    def emit(self, line, may_comment=True):
        if self.opt("ws"):
            line += " \t"
        if self.opt("com") and may_comment:
            line += " " + self.comment()
        self.lines.append(line)

    def filler(self):
        if self.opt("com"):
            n = self.ncomment
            self.ncomment += 1
            if n % 3 == 0:
                self.lines.append("")
            elif n % 3 == 1:
                self.lines.append(COMMENTS[n % len(COMMENTS)])
            else:
                self.lines.append("  \t " + COMMENTS[n % len(COMMENTS)])

    def kw(self, s):
        return s.lower() if self.opt("lc") else s

    def name(self, n):
        return name_text(n, self.cur_origin, bool(self.opt("rel")), bool(self.opt("esc")))

    def ttl_text(self, t):
        return ttl_units(t) if self.opt("units") else str(t)

    def directive(self, word, arg):
        self.filler()
        self.emit(self.kw(word) + self.sep() + arg)

    def set_origin(self, new, relative_arg=False):
        if relative_arg and is_under(new, self.cur_origin) and len(new) > len(self.cur_origin):
            arg = name_text(new, self.cur_origin, True)
        else:
            arg = name_text(new)
        self.directive("$ORIGIN", arg)
        self.cur_origin = tuple(new)

    # ---- TTL handling
    def ttl_field(self, t, is_soa=False, minimum=None, generate=False, force=False):
        """Return the TTL token or None if it is left out; update reader-state model."""
        mode = self.opt("ttl")
        omit = False
        if force:
            # a record the reader may or may not parse (out-of-zone): always explicit,
            # and what it does to "last TTL" is unspecified
            self.last_ttl = "?" if (self.last_ttl is not None or self.soa_default is not None
                                    or self.dollar is not None) else "?"
            return self.ttl_text(t)
        if mode in (1, 3):
            if mode == 3 and self.directives and self.dollar != t:
                self.directive("$TTL", self.ttl_text(t))
                self.dollar = t
            omit = self.dollar is not None and self.dollar == t
        elif mode == 2:
            if self.dollar is not None:
                omit = self.dollar == t
            elif self.soa_default is not None:
                omit = self.soa_default == t and self.last_ttl == t
            elif self.last_ttl is not None:
                omit = self.last_ttl == t
            elif is_soa and not generate:
                omit = minimum == t
        if not omit:
            self.last_ttl = t
        if is_soa and self.dollar is None and self.soa_default is None:
            self.soa_default = minimum
            if omit:
                self.last_ttl = t
        return None if omit else self.ttl_text(t)

    # ---- records
    def head(self, r, generate=False):
        toks = []
        minimum = int(r["text"][-1][1]) if r["type"] == "SOA" else None
        ttl = self.ttl_field(r["ttl"], r["type"] == "SOA" and not r.get("junk"), minimum,
                             generate, force=bool(r.get("junk")))
        cls = None
        if not self.opt("cls"):
            cls = "CLASS1" if self.opt("gm") else "IN"
            cls = self.kw(cls)
        if ttl is not None and cls is not None and self.opt("order") and not generate:
            toks += [cls, ttl]
        else:
            if ttl is not None:
                toks.append(ttl)
            if cls is not None:
                toks.append(cls)
        ty = r["type"]
        if self.opt("gm"):
            ty = "TYPE%d" % r["code"]
        toks.append(self.kw(ty))
        return toks

    def chunks(self, s):
        n = self.opt("chunk")
        if not n or not s:
            return [s] if s else []
        return [s[i:i + n] for i in range(0, len(s), n)]

    def generic_ok(self, r):
        g = self.opt("gr")
        if not g or r["type"] == "TYPE65280":
            return False
        if g == 2:
            return True
        return not any(is_under(n, self.zone_origin) for n in wire_names(r))

    def fields(self, r):
        if self.generic_ok(r):
            w = wire_of(r)
            return ["\\#", str(len(w))] + self.chunks(w.hex())
        out = []
        for kind, v in r["text"]:
            if kind == "n":
                out.append(self.name(v))
            elif kind == "t":
                out.append(v)
            elif kind == "s":
                out.append(cstring(v, not self.opt("uq")))
            else:
                out += self.chunks(v)
        return out

    def record(self, r):
        self.filler()
        if self.opt("own") and self.last_owner is not None and \
                lower(self.last_owner) == lower(r["owner"]):
            owner = "\t" if self.opt("ws") else "    "
            blank = True
        else:
            owner = self.name(r["owner"])
            blank = False
        self.last_owner = r["owner"]
        head = self.head(r)
        fields = self.fields(r)
        sep = self.sep()
        par = self.opt("par")
        if blank:
            first = owner  # already whitespace
            join = lambda toks: first + sep.join(toks)
        else:
            join = lambda toks: sep.join([owner] + toks)
        if not par or not fields:
            self.emit(join(head + fields))
            return
        ind = "\t\t" if self.opt("ws") else "      "
        if par == 1:
            self.emit(join(head + ["("]))
            for f in fields[:-1]:
                self.emit(ind + f)
            self.emit(ind + fields[-1] + sep + ")")
        elif par == 2:
            self.emit(join(["("]))
            for tkn in head:
                self.emit(ind + tkn)
            self.emit(ind + sep.join(fields))
            self.emit(ind + ")")
        else:
            self.emit(join(head + fields[:-1] + ["("]))
            self.emit("")
            self.emit(ind + fields[-1])
            self.emit(")")

    def generate(self, g):
        """g: {"range": (a, b, step), "lhs": str, "rhs": str, "type": str, "code": int,
        "ttl": int, "lhs_abs"/"rhs_abs": templates with the zone origin spelled out}"""
        self.filler()
        rel = bool(self.opt("rel")) and lower(self.cur_origin) == lower(self.zone_origin)
        lhs = g["lhs"] if rel else g["lhs_abs"]
        rhs = g["rhs"] if rel else g["rhs_abs"]
        fake = {"ttl": g["ttl"], "type": g["type"], "code": g["code"], "text": [],
                "junk": g.get("junk")}
        head = self.head(fake, generate=True)
        toks = [self.kw("$GENERATE"), gen_range_text(*g["range"]), lhs] + head + [rhs]
        self.emit(self.sep().join(toks))
        # what the reader does to "last owner"/"last TTL" after $GENERATE is not specified
        self.last_owner = None
        self.last_ttl = "?" if self.last_ttl is not None or g["ttl"] is not None else None

    def text(self, nl="\n"):
        body = nl.join(self.lines)
        if not self.opt("noeol"):
            body += nl
        return body


def render(items, origin, opts, directives=True, sub=None, api_default_ttl=None):
    """items: list of records / {"gen": spec, "expansion": [records]} / {"origin": name}.
    Returns the file text."""
    w = Writer(origin, opts, directives, sub)
    if w.opt("hdr") and directives:
        w.directive("$ORIGIN", name_text(tuple(origin)))
    if w.opt("ttl") == 1:
        if directives:
            assert api_default_ttl is not None
            w.directive("$TTL", w.ttl_text(api_default_ttl))
        w.dollar = api_default_ttl
    in_sub = False
    for it in items:
        blk = bool(it.get("blk")) and w.opt("mid") and directives and sub is not None
        if blk and not in_sub:
            w.set_origin(sub, relative_arg=(w.opt("mid") == 2))
            in_sub = True
        elif not blk and in_sub:
            w.set_origin(origin)
            in_sub = False
        if "origin" in it:
            if directives:
                w.set_origin(it["origin"])
        elif "gen" in it:
            if w.opt("gen") and directives:
                w.generate(it["gen"])
            else:
                for r in it["expansion"]:
                    w.record(r)
        else:
            w.record(it)
    w.filler()
    return w.text()
