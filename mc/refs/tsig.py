"""Independent TSIG reference (RFC 8945) working on raw message bytes.

Only `hmac`, `hashlib` and `struct` are used; nothing from dnspython is imported, so the
functions here can judge what the library signs and accepts.

RFC 8945 section 4.3 digest for a stand-alone message (in this order):

    [request MAC length (2 octets) + request MAC]      only for a response to a signed request (4.3.1)
    DNS message without the TSIG RR                    id := original id, ARCOUNT := ARCOUNT-1 (4.3.2)
    key name (canonical wire form: lower case, uncompressed), CLASS ANY (255), TTL 0,
    algorithm name (canonical wire form), time signed (48 bits), fudge (16 bits),
    error (16 bits), other length (16 bits), other data                               (4.3.3)

Second and later envelopes of a multi-message exchange (RFC 8945 section 5.3.1):

    prior MAC length + prior MAC (as transmitted)
    every unsigned envelope since the last signed one, complete and unchanged
    this envelope without its TSIG RR (id := original id, ARCOUNT-1)
    TSIG timers only: time signed (48 bits), fudge (16 bits)

Truncated algorithm variants (hmac-sha256-128, ...) transmit the left-most bits of the
HMAC output (RFC 8945 section 5.2.2.1).
"""
from __future__ import annotations

import hashlib
import hmac
import struct

TSIG_TYPE = 250
CLASS_ANY = 255

# algorithm name (canonical text, absolute) -> (hashlib constructor name, MAC octets on the wire)
ALGORITHMS = {
    "hmac-md5.sig-alg.reg.int.": ("md5", 16),
    "hmac-sha1.": ("sha1", 20),
    "hmac-sha224.": ("sha224", 28),
    "hmac-sha256.": ("sha256", 32),
    "hmac-sha256-128.": ("sha256", 16),
    "hmac-sha384.": ("sha384", 48),
    "hmac-sha384-192.": ("sha384", 24),
    "hmac-sha512.": ("sha512", 64),
    "hmac-sha512-256.": ("sha512", 32),
}

BADSIG, BADKEY, BADTIME, BADTRUNC = 16, 17, 18, 22


class RefError(Exception):
    """The bytes are not a well-formed DNS message (reference parser)."""


# ------------------------------------------------------------------ names
def labels_from_text(text):
    """'Key.Example.' -> [b'Key', b'Example'] (plain ASCII labels only, absolute)."""
    assert text.endswith("."), text
    if text == ".":
        return []
    return [lab.encode("ascii") for lab in text[:-1].split(".")]


def name_wire(labels):
    """Uncompressed wire form, octets as given."""
    out = bytearray()
    for lab in labels:
        assert 0 < len(lab) < 64
        out.append(len(lab))
        out += lab
    out.append(0)
    assert len(out) <= 255
    return bytes(out)


def lower(lab):
    return bytes(c + 32 if 0x41 <= c <= 0x5A else c for c in lab)


def canonical_name_wire(labels):
    return name_wire([lower(lab) for lab in labels])


def canonical_text(labels):
    return "".join(lower(lab).decode("latin-1") + "." for lab in labels) or "."


def parse_name(wire, off):
    """Decode a possibly compressed name.  Returns (labels, offset after the name)."""
    labels = []
    end = None
    hops = 0
    total = 1
    while True:
        if off >= len(wire):
            raise RefError("name runs off the message")
        c = wire[off]
        if c == 0:
            off += 1
            break
        if c & 0xC0 == 0xC0:
            if off + 1 >= len(wire):
                raise RefError("short pointer")
            target = ((c & 0x3F) << 8) | wire[off + 1]
            if end is None:
                end = off + 2
            if target >= off:
                raise RefError("forward pointer")
            hops += 1
            if hops > 127:
                raise RefError("pointer loop")
            off = target
            continue
        if c & 0xC0:
            raise RefError("bad label type")
        if off + 1 + c > len(wire):
            raise RefError("label runs off the message")
        labels.append(bytes(wire[off + 1:off + 1 + c]))
        total += c + 1
        if total > 255:
            raise RefError("name too long")
        off += 1 + c
    return labels, (end if end is not None else off)


# ------------------------------------------------------------------ messages
class RR:
    __slots__ = ("section", "start", "labels", "name_end", "rtype", "rclass", "ttl", "rdlen", "rdata_start", "end")


class Msg:
    __slots__ = ("id", "flags", "counts", "rrs", "end", "question_end")


def parse_message(wire):
    """Frame a message: header, questions skipped, every RR located.  Trailing octets are an error."""
    if len(wire) < 12:
        raise RefError("short header")
    m = Msg()
    m.id, m.flags, qd, an, ns, ar = struct.unpack("!HHHHHH", wire[:12])
    m.counts = (qd, an, ns, ar)
    off = 12
    for _ in range(qd):
        _, off = parse_name(wire, off)
        if off + 4 > len(wire):
            raise RefError("short question")
        off += 4
    m.question_end = off
    m.rrs = []
    for section, count in ((1, an), (2, ns), (3, ar)):
        for _ in range(count):
            rr = RR()
            rr.section = section
            rr.start = off
            rr.labels, off = parse_name(wire, off)
            rr.name_end = off
            if off + 10 > len(wire):
                raise RefError("short RR header")
            rr.rtype, rr.rclass, rr.ttl, rr.rdlen = struct.unpack("!HHIH", wire[off:off + 10])
            off += 10
            rr.rdata_start = off
            if off + rr.rdlen > len(wire):
                raise RefError("rdata runs off the message")
            off += rr.rdlen
            rr.end = off
            m.rrs.append(rr)
    if off != len(wire):
        raise RefError("trailing octets")
    m.end = off
    return m


class Tsig:
    """Fields of a TSIG RR, plus the byte positions the check needs for its exemptions."""
    __slots__ = ("start", "owner", "owner_span", "rclass", "ttl", "ttl_span", "type_span", "algorithm",
                 "alg_span", "time_signed", "fudge", "mac", "mac_span", "original_id", "error", "other", "end")


def parse_tsig_rr(wire, rr):
    t = Tsig()
    t.start = rr.start
    t.owner = rr.labels
    t.owner_span = (rr.start, rr.name_end)
    t.type_span = (rr.name_end, rr.name_end + 2)
    t.rclass = rr.rclass
    t.ttl = rr.ttl
    t.ttl_span = (rr.name_end + 4, rr.name_end + 8)
    lim = rr.rdata_start + rr.rdlen
    body = wire[:lim]
    t.algorithm, off = parse_name(body, rr.rdata_start)
    t.alg_span = (rr.rdata_start, off)
    if off + 10 > lim:
        raise RefError("short TSIG rdata")
    hi, lo, t.fudge, macsize = struct.unpack("!HIHH", body[off:off + 10])
    t.time_signed = (hi << 32) | lo
    off += 10
    if off + macsize + 6 > lim:
        raise RefError("short TSIG rdata")
    t.mac = bytes(body[off:off + macsize])
    t.mac_span = (off, off + macsize)
    off += macsize
    t.original_id, t.error, olen = struct.unpack("!HHH", body[off:off + 6])
    off += 6
    if off + olen != lim:
        raise RefError("TSIG other length does not fill the rdata")
    t.other = bytes(body[off:off + olen])
    t.end = lim
    return t


def find_tsig(wire):
    """Return (Msg, Tsig or None).  A TSIG RR anywhere but last in the additional section,
    or with a class other than ANY, is a format error."""
    m = parse_message(wire)
    tsig = None
    n = len(m.rrs)
    for i, rr in enumerate(m.rrs):
        if rr.rtype == TSIG_TYPE:
            if i != n - 1 or rr.section != 3 or rr.rclass != CLASS_ANY:
                raise RefError("TSIG is not the last additional record / not class ANY")
            tsig = parse_tsig_rr(wire, rr)
    return m, tsig


# ------------------------------------------------------------------ digest components
def time48(t):
    assert 0 <= t < (1 << 48)
    return struct.pack("!HI", (t >> 32) & 0xFFFF, t & 0xFFFFFFFF)


def stripped_message(wire, tsig_start, original_id):
    """The message as it was before the TSIG RR was added (RFC 8945 4.3.2)."""
    (ar,) = struct.unpack("!H", wire[10:12])
    if ar == 0:
        raise RefError("ARCOUNT is 0 but a TSIG RR is present")
    return struct.pack("!H", original_id) + bytes(wire[2:10]) + struct.pack("!H", ar - 1) + bytes(wire[12:tsig_start])


def tsig_variables(key_labels, alg_labels, time_signed, fudge, error, other):
    """RFC 8945 4.3.3."""
    return (canonical_name_wire(key_labels) + struct.pack("!HI", CLASS_ANY, 0) +
            canonical_name_wire(alg_labels) + time48(time_signed) + struct.pack("!H", fudge) +
            struct.pack("!HH", error, len(other)) + other)


def tsig_timers(time_signed, fudge):
    return time48(time_signed) + struct.pack("!H", fudge)


def prefixed(mac):
    return struct.pack("!H", len(mac)) + mac


def hmac_for(alg_labels, secret, data):
    """Full-length HMAC cut to the left-most octets the algorithm name prescribes."""
    try:
        hname, size = ALGORITHMS[canonical_text(alg_labels)]
    except KeyError:
        raise RefError("unknown algorithm")
    return hmac.new(secret, data, getattr(hashlib, hname)).digest()[:size]


def digest_input_first(request_mac, msg_without_tsig, key_labels, alg_labels, time_signed, fudge, error, other):
    d = b""
    if request_mac:
        d += prefixed(request_mac)
    return d + msg_without_tsig + tsig_variables(key_labels, alg_labels, time_signed, fudge, error, other)


def digest_input_subsequent(prior_mac, unsigned_since, msg_without_tsig, time_signed, fudge):
    return prefixed(prior_mac) + b"".join(unsigned_since) + msg_without_tsig + tsig_timers(time_signed, fudge)


# ------------------------------------------------------------------ reference MAC of an existing signed message
class Chain:
    """State of a multi-message exchange: MAC of the last signed envelope and the unsigned
    envelopes seen since."""

    def __init__(self):
        self.prior_mac = None
        self.unsigned = []

    def copy(self):
        c = Chain()
        c.prior_mac = self.prior_mac
        c.unsigned = list(self.unsigned)
        return c


def expected_mac(wire, secret, request_mac=b"", chain=None):
    """Recompute the MAC a correct signer puts into the TSIG RR of `wire` (which must carry
    one).  With `chain` (multi-message) the first envelope is digested in full, later ones
    with prior MAC + timers only; the chain is advanced."""
    _, t = find_tsig(wire)
    if t is None:
        raise RefError("no TSIG RR")
    body = stripped_message(wire, t.start, t.original_id)
    if chain is not None and chain.prior_mac is not None:
        data = digest_input_subsequent(chain.prior_mac, chain.unsigned, body, t.time_signed, t.fudge)
    else:
        data = digest_input_first(request_mac, body, t.owner, t.algorithm, t.time_signed, t.fudge, t.error, t.other)
    mac = hmac_for(t.algorithm, secret, data)
    if chain is not None:
        chain.prior_mac = t.mac      # what was transmitted
        chain.unsigned = []
    return mac, t


def pass_unsigned(wire, chain):
    chain.unsigned.append(bytes(wire))


def verify(wire, keys, now, request_mac=b"", chain=None):
    """Reference verdict for one received envelope.

    keys: {canonical key name text: (canonical algorithm text or None, secret)}.
    Returns one of 'ok', 'unsigned', 'formerr', 'badkey', 'badalg', 'peer-error', 'badtime', 'badsig'.
    The chain (if any) is advanced only on 'ok'/'unsigned'."""
    try:
        _, t = find_tsig(wire)
    except RefError:
        return "formerr"
    if t is None:
        if chain is not None and chain.prior_mac is not None:
            pass_unsigned(wire, chain)
        return "unsigned"
    k = keys.get(canonical_text(t.owner))
    if k is None:
        return "badkey"
    alg, secret = k
    if canonical_text(t.algorithm) not in ALGORITHMS:
        return "badalg"
    if alg is not None and alg != canonical_text(t.algorithm):
        return "badalg"
    if t.error != 0:
        return "peer-error"
    if abs(t.time_signed - now) > t.fudge:
        return "badtime"
    c2 = chain.copy() if chain is not None else None
    try:
        mac, _ = expected_mac(wire, secret, request_mac, c2)
    except RefError:
        return "formerr"
    if not hmac.compare_digest(mac, t.mac):
        return "badsig"
    if chain is not None:
        chain.prior_mac = c2.prior_mac
        chain.unsigned = c2.unsigned
    return "ok"


# ------------------------------------------------------------------ reference signer
def append_rr(wire, section_index, rr_bytes):
    """Append one RR at the end of the message, bumping the given header count
    (0 QD, 1 AN, 2 NS, 3 AR).  The caller guarantees the sections after it are empty."""
    counts = list(struct.unpack("!HHHH", wire[4:12]))
    counts[section_index] += 1
    return bytes(wire[:4]) + struct.pack("!HHHH", *counts) + bytes(wire[12:]) + rr_bytes


def tsig_rr_bytes(key_labels, alg_labels, time_signed, fudge, mac, original_id, error, other,
                  rclass=CLASS_ANY, ttl=0):
    rdata = (name_wire(alg_labels) + time48(time_signed) + struct.pack("!HH", fudge, len(mac)) + mac +
             struct.pack("!HHH", original_id, error, len(other)) + other)
    return name_wire(key_labels) + struct.pack("!HHIH", TSIG_TYPE, rclass, ttl, len(rdata)) + rdata


def sign(wire, key_labels, alg_labels, secret, time_signed, fudge=300, original_id=None, error=0,
         other=b"", request_mac=b"", chain=None):
    """Sign a raw unsigned message: returns (signed wire, MAC).  The key and algorithm names
    are written uncompressed with the octets given (any ASCII case)."""
    (wid,) = struct.unpack("!H", wire[:2])
    if original_id is None:
        original_id = wid
    body = struct.pack("!H", original_id) + bytes(wire[2:])
    if chain is not None and chain.prior_mac is not None:
        data = digest_input_subsequent(chain.prior_mac, chain.unsigned, body, time_signed, fudge)
    else:
        data = digest_input_first(request_mac, body, key_labels, alg_labels, time_signed, fudge, error, other)
    mac = hmac_for(alg_labels, secret, data)
    rr = tsig_rr_bytes(key_labels, alg_labels, time_signed, fudge, mac, original_id, error, other)
    if chain is not None:
        chain.prior_mac = mac
        chain.unsigned = []
    return append_rr(wire, 3, rr), mac


def exempt_bits(wire):
    """Bit positions (byte*8 + bit, bit 0 = least significant) of a signed message that
    RFC 8945 does not authenticate: the message id on the wire, the ASCII case bit of
    letters in the key name written inside the TSIG RR and in the algorithm name, and the
    TSIG RR's TTL field.  Returns {bit: class}."""
    _, t = find_tsig(wire)
    out = {}
    if t is None:
        return out
    for byte in (0, 1):
        for b in range(8):
            out[byte * 8 + b] = "wire-id"
    for byte in range(*t.ttl_span):
        for b in range(8):
            out[byte * 8 + b] = "tsig-ttl"

    def case_bits(start, stop, cls):
        off = start
        while off < stop:
            c = wire[off]
            if c == 0 or c & 0xC0:
                break
            for i in range(off + 1, off + 1 + c):
                if 0x41 <= wire[i] <= 0x5A or 0x61 <= wire[i] <= 0x7A:
                    out[i * 8 + 5] = cls
            off += 1 + c

    case_bits(t.owner_span[0], t.owner_span[1], "keyname-case")
    case_bits(t.alg_span[0], t.alg_span[1], "algorithm-case")
    return out


def normalisation_region(wire):
    """Byte ranges in which a flip may still leave the message identical *after* name
    normalisation (decompression + case folding): the TSIG owner name (incl. a compression
    pointer that may be redirected to an equal name) and the algorithm name."""
    _, t = find_tsig(wire)
    if t is None:
        return []
    return [t.owner_span, t.alg_span]
