"""Reference model for C18 (network exchange acceptance, stream framing).

Everything here is written from RFC 1035 §4.1 (message format), the C18 property
statement and the docstrings of dns.query.udp/receive_udp/tcp/receive_tcp/send_tcp.
Nothing in this file imports dnspython: datagrams are *built* with struct, *parsed*
with an independent strict parser, addresses are compared with the stdlib
(socket.inet_pton / ipaddress).
"""
from __future__ import annotations

import ipaddress
import socket
import struct

QR = 0x8000
AA = 0x0400
TC = 0x0200
RD = 0x0100
RA = 0x0080

T_A = 1
T_TXT = 16
T_AAAA = 28
C_IN = 1
C_CH = 3

INF = float("inf")


# ------------------------------------------------------------------ building
def enc_name(labels):
    out = b""
    for l in labels:
        assert 0 < len(l) < 64
        out += bytes([len(l)]) + l
    return out + b"\x00"


def enc_owner(owner):
    """owner: tuple of labels, or an int = offset of a compression pointer."""
    if isinstance(owner, int):
        return struct.pack("!H", 0xC000 | owner)
    return enc_name(owner)


def build(mid, flags, qd=(), an=(), ns=(), ar=(), counts=None, trailing=b"", cut=None):
    """qd: [(labels, type, class)]; records: (owner, type, class, ttl, rdata[, rdlen])."""
    body = b""
    for labels, t, c in qd:
        body += enc_owner(labels) + struct.pack("!HH", t, c)
    for sec in (an, ns, ar):
        for rec in sec:
            owner, t, c, ttl, rdata = rec[:5]
            rdlen = rec[5] if len(rec) > 5 else len(rdata)
            body += enc_owner(owner) + struct.pack("!HHIH", t, c, ttl, rdlen) + rdata
    if counts is None:
        counts = (len(qd), len(an), len(ns), len(ar))
    wire = struct.pack("!HHHHHH", mid, flags, *counts) + body + trailing
    if cut is not None:
        wire = wire[:cut]
    return wire


# ------------------------------------------------------------------ strict parser
class Malformed(Exception):
    pass


def parse_name(wire, off):
    """RFC 1035 §3.1/§4.1.4.  Returns (lower-cased labels, offset after the name)."""
    labels = []
    total = 0
    nxt = None
    limit = off  # a pointer must refer to a *prior* occurrence
    hops = 0
    while True:
        if off >= len(wire):
            raise Malformed("name runs off the end")
        b = wire[off]
        if b == 0:
            off += 1
            break
        if b & 0xC0 == 0xC0:
            if off + 1 >= len(wire):
                raise Malformed("pointer runs off the end")
            target = ((b & 0x3F) << 8) | wire[off + 1]
            if target >= limit:
                raise Malformed("forward/self pointer")
            if nxt is None:
                nxt = off + 2
            limit = target
            off = target
            hops += 1
            if hops > 128:
                raise Malformed("pointer loop")
            continue
        if b & 0xC0:
            raise Malformed("bad label type")
        if off + 1 + b > len(wire):
            raise Malformed("label runs off the end")
        labels.append(wire[off + 1:off + 1 + b].lower())
        total += b + 1
        if total + 1 > 255:
            raise Malformed("name too long")
        off += 1 + b
    return tuple(labels), (nxt if nxt is not None else off)


def rdata_ok(t, c, rdata):
    if t == T_A and c == C_IN:
        return len(rdata) == 4
    if t == T_AAAA and c == C_IN:
        return len(rdata) == 16
    if t == T_TXT:
        if not rdata:
            return False
        i = 0
        while i < len(rdata):
            i += 1 + rdata[i]
        return i == len(rdata)
    return True


class Info:
    """What an independent strict reader sees in one datagram."""

    __slots__ = ("wire", "short", "id", "flags", "qr", "opcode", "tc", "rcode", "counts",
                 "question", "records", "error", "trailing")

    def __init__(self, wire):
        self.wire = wire
        self.short = len(wire) < 12
        self.id = self.flags = self.opcode = self.rcode = None
        self.qr = self.tc = False
        self.counts = None
        self.question = None   # list of (labels, type, class) once fully parsed
        self.records = None    # list of (section, labels, type, class, ttl, rdata) once fully parsed
        self.error = None      # None | "short-header" | "question" | "record" | "trailing"
        self.trailing = 0
        if self.short:
            self.error = "short-header"
            return
        mid, flags, qd, an, ns, ar = struct.unpack("!HHHHHH", wire[:12])
        self.id = mid
        self.flags = flags
        self.qr = bool(flags & QR)
        self.opcode = (flags >> 11) & 0xF
        self.tc = bool(flags & TC)
        self.rcode = flags & 0xF
        self.counts = (qd, an, ns, ar)
        off = 12
        try:
            q = []
            for _ in range(qd):
                labels, off = parse_name(wire, off)
                if off + 4 > len(wire):
                    raise Malformed("question runs off the end")
                t, c = struct.unpack("!HH", wire[off:off + 4])
                off += 4
                q.append((labels, t, c))
            self.question = q
        except Malformed:
            self.error = "question"
            return
        try:
            recs = []
            for sec, n in ((1, an), (2, ns), (3, ar)):
                for _ in range(n):
                    labels, off = parse_name(wire, off)
                    if off + 10 > len(wire):
                        raise Malformed("RR header runs off the end")
                    t, c, ttl, rdlen = struct.unpack("!HHIH", wire[off:off + 10])
                    off += 10
                    if off + rdlen > len(wire):
                        raise Malformed("RDATA runs off the end")
                    rdata = wire[off:off + rdlen]
                    off += rdlen
                    if not rdata_ok(t, c, rdata):
                        raise Malformed("bad RDATA")
                    recs.append((sec, labels, t, c, ttl, rdata))
            self.records = recs
        except Malformed:
            self.error = "record"
            return
        self.trailing = len(wire) - off
        if self.trailing:
            self.error = "trailing"

    def well_formed(self, ignore_trailing=False):
        return self.error is None or (ignore_trailing and self.error == "trailing")


def genuine(q: Info, r: Info) -> bool:
    """Is r, at header/question level, a response to the query q that was sent?
    Statement: QR set, same id, opcode and question.  Reading: FORMERR/SERVFAIL/NOTIMP/
    REFUSED replies may come with an empty question."""
    if r.short:
        return False
    if not r.qr or r.id != q.id or r.opcode != q.opcode:
        return False
    if r.rcode in (1, 2, 4, 5) and r.counts[0] == 0:
        return True
    if r.question is None:
        return False
    return sorted(set(r.question)) == sorted(set(q.question))


def source_ok(family, src, dest) -> bool:
    """Did the datagram arrive from the queried address and port?  Addresses are compared
    in binary form; a multicast destination is answered from any (unicast) address but
    the rest of the tuple (port, and flow/scope for IPv6) must still match."""
    if not dest:
        return True
    try:
        same = socket.inet_pton(family, src[0]) == socket.inet_pton(family, dest[0])
    except OSError:
        same = False
    rest = tuple(src[1:]) == tuple(dest[1:])
    if same and rest:
        return True
    return ipaddress.ip_address(dest[0]).is_multicast and rest


# ------------------------------------------------------------------ UDP option table
def udp_expect(kind, q, family, dest, dgrams, opts, timeout, delays, has_query=True):
    """Allowed outcomes of one exchange.

    kind: "udp" (send + receive + final response check) or "receive" (receive_udp alone)
    dgrams: [(Info, src)] in arrival order, followed by silence
    opts: (ignore_unexpected, ignore_errors, raise_on_truncation, ignore_trailing, one_rr_per_rrset)
    delays[i]: seconds of waiting before datagram i arrives; timeout None = wait forever
    Returns a set of outcomes: ("return", i) / ("raise", name) / ("hang",)
    """
    iu, ie, rot, it, _orr = opts
    check_query = ie and has_query if kind == "receive" else ie

    def go(i, t):
        if i == len(dgrams):
            return {("hang",)} if timeout is None else {("raise", "Timeout")}
        t += delays[i]
        if timeout is not None and t >= timeout:
            return {("raise", "Timeout")}
        info, src = dgrams[i]
        if not source_ok(family, src, dest):
            if iu:
                return go(i + 1, t)
            return {("raise", "UnexpectedSource")}
        looks = has_query and genuine(q, info)
        if not info.well_formed(it):
            if not info.short and info.tc and rot:
                # "raise an exception if the TC bit is set" vs "raises if malformed":
                # both reports are legitimate; an injected TC (not a response) must not
                # end an ignore_errors exchange.
                if ie:
                    if check_query and not looks:
                        return go(i + 1, t)
                    return {("raise", "Truncated")} | go(i + 1, t)
                return {("raise", "Truncated"), ("raise", "FormError")}
            if ie:
                return go(i + 1, t)
            return {("raise", "FormError")}
        if info.tc and rot:
            if check_query and not looks:
                return go(i + 1, t)
            if looks or kind == "receive" or not has_query:
                return {("raise", "Truncated")}
            return {("raise", "Truncated"), ("raise", "BadResponse")}
        if has_query and not looks:
            if check_query:
                return go(i + 1, t)
            if kind == "udp":
                return {("raise", "BadResponse")}
        return {("return", i)}

    return go(0, 0.0)


# ------------------------------------------------------------------ stream model
def stream_read_expect(avail, end, blocks, timeout, t0=0.0):
    """Reading one length-prefixed message from a byte stream.

    avail: bytes that will ever arrive; end: "eof" | "stall" after them
    blocks: {offset: n} would-block events (1 s of waiting each) met when the reader
    is at that offset.  Returns (outcome, consumed, t).
    outcome: ("frame", bytes) | ("raise", "EOFError"|"Timeout") | ("hang",)
    """
    t = t0
    need = 2
    if len(avail) >= 2:
        need = 2 + struct.unpack("!H", avail[:2])[0]
    have = min(need, len(avail))
    # every would-block event strictly before the last needed byte is met
    for pos in range(0, have + 1):
        if pos == need:
            break
        for _ in range(blocks.get(pos, 0)):
            t += 1.0
            if timeout is not None and t >= timeout:
                return ("raise", "Timeout"), pos, t
    if have < need:
        if end == "eof":
            return ("raise", "EOFError"), have, t
        if timeout is None:
            return ("hang",), have, t
        return ("raise", "Timeout"), have, t
    return ("frame", avail[2:need]), need, t


def stream_write_expect(total, blocks, timeout, t0=0.0):
    """Writing `total` bytes; blocks as above.  Returns (outcome, written, t)."""
    t = t0
    for pos in range(0, total):
        for _ in range(blocks.get(pos, 0)):
            t += 1.0
            if timeout is not None and t >= timeout:
                return ("raise", "Timeout"), pos, t
    return ("ok",), total, t
