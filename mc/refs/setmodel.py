"""Reference model for C07 (iii): record sets as insertion-ordered mathematical sets.

Written from the property statement and the dnspython documentation/docstrings only
(doc/rdata-set-classes.rst: "a set of Rdata objects which all have the same rdatatype,
rdataclass, and covered type ... support the normal Python set API, but are also ordered";
Rdataset.add / update_ttl docstrings; rdatatype.is_singleton docstring); it never imports
dns.  The harness observes the complete state of the real objects (ordered items, ttl,
covers) before an operation, asks this model for the admissible outcomes and compares.

Vocabulary
  Rec      one record of the universe: label (harness identity), key (class, type,
           reference canonical encoding – the *value*), rdclass, rdtype, covers.
  St       observed/expected value of one set: items (tuple of Rec, first-insertion
           order), ttl, covers.
  Spec     static description of a set object: kind in {"set","rdataset","rrset",
           "immutable"}, rdclass, rdtype, singleton (type is a singleton type), sig (type
           carries a covered type: SIG/RRSIG).
  Outcome  what an operation may do: `raises` (None, or a tag naming the documented
           refusal), the receiver's admissible post state (items, set of admissible TTLs,
           covers) and, for copying operations, the admissible result.

TTL rule (Rdataset.update_ttl docstring): "Set the TTL of the rdataset to be the lesser of
the set's current TTL or the specified TTL.  If the set contains no rdatas, set the TTL to
the specified TTL."  The property: "the set's TTL is the minimum of the TTLs merged into
it".  Where the documentation is silent (merging an *empty* set, whose TTL is meaningless;
intersecting, which merges no record) both "unchanged" and "minimised" are admissible.
"""
from __future__ import annotations

from collections import namedtuple

NONE = 0  # dns.rdatatype.NONE: "covers nothing"

Rec = namedtuple("Rec", "label key rdclass rdtype covers")
St = namedtuple("St", "items ttl covers")
Spec = namedtuple("Spec", "kind rdclass rdtype singleton sig")

# refusal tags (the harness maps them to the library's documented exceptions)
INCOMPATIBLE = "IncompatibleTypes"   # dns.rdataset.IncompatibleTypes
COVERS = "DifferingCovers"           # dns.rdataset.DifferingCovers
MISSING = "missing"                  # remove() of an absent item: KeyError/ValueError
EMPTY = "empty"                      # pop() from an empty set
IMMUTABLE = "immutable"              # any mutator of an immutable set that would change it
MAYRAISE = "immutable-noop"          # mutator of an immutable set that would change nothing:
#                                      raising and silently doing nothing are both fine

UNION_OPS = ("|=", "+=", "union_update", "update")
INTER_OPS = ("&=", "intersection_update")
DIFF_OPS = ("-=", "difference_update")
SYM_OPS = ("^=", "symmetric_difference_update")
INPLACE = UNION_OPS + INTER_OPS + DIFF_OPS + SYM_OPS
COPYING = {"|": "union", "+": "union", "union": "union",
           "&": "inter", "intersection": "inter",
           "-": "diff", "difference": "diff",
           "^": "sym", "symmetric_difference": "sym"}


def family(op):
    if op in UNION_OPS:
        return "union"
    if op in INTER_OPS:
        return "inter"
    if op in DIFF_OPS:
        return "diff"
    if op in SYM_OPS:
        return "sym"
    return COPYING[op]


class Outcome:
    __slots__ = ("raises", "items", "ttls", "covers", "res", "ret_any_of")

    def __init__(self, raises, st_items, ttls, covers, res=None, ret_any_of=None):
        self.raises = raises
        self.items = tuple(st_items)
        self.ttls = frozenset(ttls)
        self.covers = covers
        self.res = res                # (kind, items, ttls, covers) of a returned set
        self.ret_any_of = ret_any_of  # pop(): the returned item is one of these

    def keys(self):
        return [r.key for r in self.items]


def typed(spec):
    return spec.kind != "set"


def keys(items):
    return [r.key for r in items]


def has(items, rec):
    return rec.key in keys(items)


def unchanged(x, raises=None):
    return Outcome(raises, x.items, {x.ttl}, x.covers)


def min_ttl(x, ttl):
    """update_ttl docstring."""
    if len(x.items) == 0:
        return ttl
    return min(x.ttl, ttl)


# ------------------------------------------------------------------ single-record admission
def admit(spec, items, covers, rec):
    """May `rec` enter a set (spec, items, covers)?  Returns (refusal tag or None, covers')."""
    if not typed(spec):
        return None, covers
    if rec.rdclass != spec.rdclass or rec.rdtype != spec.rdtype:
        return INCOMPATIBLE, covers
    if spec.sig:
        # "If this is the first rdata in the set, initialize the covers field"
        if len(items) == 0 and covers == NONE:
            return None, rec.covers
        if rec.covers != covers:
            return COVERS, covers
    return None, covers


def put(spec, items, rec):
    """Items after a successful add: duplicates collapse, first-insertion order is kept,
    a singleton type keeps only the newest record."""
    if typed(spec) and spec.singleton:
        return (rec,)
    if has(items, rec):
        return tuple(items)
    return tuple(items) + (rec,)


def merge(spec, x, others):
    """Add the records `others` one after the other (union semantics).
    Returns (refusal tag or None, items, covers)."""
    items, covers = tuple(x.items), x.covers
    for rec in others:
        bad, covers2 = admit(spec, items, covers, rec)
        if bad:
            return bad, tuple(x.items), x.covers
        covers = covers2
        items = put(spec, items, rec)
    return None, items, covers


# ------------------------------------------------------------------ mutators
def op_add(spec, x, rec, ttl=None):
    if spec.kind == "immutable":
        return unchanged(x, IMMUTABLE)
    bad, covers = admit(spec, x.items, x.covers, rec)
    if bad:
        # refused: nothing was merged, so neither the items nor the TTL may move
        return unchanged(x, bad)
    t = x.ttl
    if typed(spec) and ttl is not None:
        t = min_ttl(x, ttl)
    return Outcome(None, put(spec, x.items, rec), {t}, covers)


def op_update_ttl(spec, x, ttl):
    if spec.kind == "immutable":
        return unchanged(x, IMMUTABLE if min_ttl(x, ttl) != x.ttl else MAYRAISE)
    return Outcome(None, x.items, {min_ttl(x, ttl)}, x.covers)


def op_remove(spec, x, rec, strict):
    """remove (strict) / discard."""
    present = has(x.items, rec)
    if spec.kind == "immutable":
        if present:
            return unchanged(x, IMMUTABLE)
        return unchanged(x, MAYRAISE)
    if not present:
        return unchanged(x, MISSING if strict else None)
    return Outcome(None, [r for r in x.items if r.key != rec.key], {x.ttl}, x.covers)


def op_pop(spec, x):
    if spec.kind == "immutable":
        return unchanged(x, IMMUTABLE if x.items else MAYRAISE)
    if not x.items:
        return unchanged(x, EMPTY)
    # "Remove an arbitrary item": the harness resolves which one from the return value
    return Outcome(None, x.items, {x.ttl}, x.covers, ret_any_of=tuple(x.items))


def after_pop(x, rec):
    return Outcome(None, [r for r in x.items if r.key != rec.key], {x.ttl}, x.covers)


def op_clear(spec, x):
    if spec.kind == "immutable":
        return unchanged(x, IMMUTABLE if x.items else MAYRAISE)
    return Outcome(None, (), {x.ttl}, x.covers)


def op_delitem(spec, x, index):
    """del X[i] / del X[i:j:k] on the first-insertion order (non-negative, in range)."""
    victims = list(x.items)[index] if isinstance(index, slice) else [list(x.items)[index]]
    if spec.kind == "immutable":
        return unchanged(x, IMMUTABLE if victims else MAYRAISE)
    gone = keys(victims)
    return Outcome(None, [r for r in x.items if r.key not in gone], {x.ttl}, x.covers)


def _algebra(spec, x, fam, y, alias):
    """Set algebra of receiver value x with operand value y (alias: y is the very same
    object).  Returns (refusal, items, ttls, covers)."""
    xs, ys = tuple(x.items), tuple(y.items)
    if alias:
        ys = xs
    x_only = [r for r in xs if not has(ys, r)]
    y_only = [r for r in ys if not has(xs, r)]
    both = [r for r in xs if has(ys, r)]
    ttl_min = min_ttl(x, y.ttl)
    if alias:
        # S op S: union and intersection are S, difference and symmetric difference empty
        if fam in ("union", "inter"):
            return None, xs, {x.ttl}, x.covers
        return None, (), {x.ttl}, x.covers
    if fam == "union":
        bad, items, covers = merge(spec, x, ys)
        if bad:
            return bad, xs, {x.ttl}, x.covers
        if not typed(spec):
            return None, items, {x.ttl}, covers
        if ys:
            return None, items, {ttl_min}, covers
        return None, items, {x.ttl, ttl_min}, covers
    if fam == "inter":
        ttls = {x.ttl, ttl_min} if typed(spec) else {x.ttl}
        return None, both, ttls, x.covers
    if fam == "diff":
        return None, x_only, {x.ttl}, x.covers
    # symmetric difference: what is only in x, then what is only in y (merged into x)
    if y_only:
        # admission is judged against the receiver as it stands
        bad, _, covers = merge(spec, x, y_only)
        if bad:
            return bad, xs, {x.ttl}, x.covers
        if typed(spec) and spec.singleton:
            items = (y_only[-1],)
        else:
            items = tuple(x_only) + tuple(y_only)
        return None, items, ({ttl_min} if typed(spec) else {x.ttl}), covers
    ttls = {x.ttl, ttl_min} if typed(spec) else {x.ttl}
    return None, x_only, ttls, x.covers


def op_inplace(spec, x, op, y, alias=False):
    """X op= Y for the in-place operators and the *_update methods."""
    fam = family(op)
    bad, items, ttls, covers = _algebra(spec if spec.kind != "immutable" else
                                        spec._replace(kind="rdataset"), x, fam, y, alias)
    if spec.kind == "immutable":
        # "immutable sets raise on every mutator and stay unchanged": a call that would
        # change a mutable set must raise; one that would change nothing may do either
        changes = bad is None and (keys(items) != keys(x.items) or x.ttl not in ttls
                                   or covers != x.covers)
        return unchanged(x, IMMUTABLE if changes else MAYRAISE)
    if bad:
        return unchanged(x, bad)
    return Outcome(None, items, ttls, covers)


def op_copying(spec, x, op, y, alias=False):
    """R = X op Y: operands untouched, R a new set of X's type ("Returns the same Set type
    as this set"); for an immutable X "functional ops return new immutable sets"."""
    fam = family(op)
    mspec = spec._replace(kind="rdataset") if spec.kind == "immutable" else spec
    bad, items, ttls, covers = _algebra(mspec, x, fam, y, alias)
    if bad:
        return unchanged(x, bad)
    return Outcome(None, x.items, {x.ttl}, x.covers,
                   res=(spec.kind, tuple(items), frozenset(ttls), covers))


def op_copy(spec, x):
    return Outcome(None, x.items, {x.ttl}, x.covers,
                   res=(spec.kind, tuple(x.items), frozenset({x.ttl}), x.covers))


# ------------------------------------------------------------------ queries
def q_subset(x, y):
    return all(has(y.items, r) for r in x.items)


def q_disjoint(x, y):
    return not any(has(y.items, r) for r in x.items)


def q_equal(specx, x, specy, y):
    """Equality ignores order (and says nothing about the TTL).  Returns True/False, or
    None where the property is silent: two empty typed sets that differ only in the
    covered type they were created for."""
    same = sorted(keys(x.items)) == sorted(keys(y.items))
    if typed(specx) and typed(specy):
        if (specx.rdclass, specx.rdtype) != (specy.rdclass, specy.rdtype):
            return False if (x.items or y.items) else None
        if x.covers != y.covers:
            return False if (x.items or y.items) else None
    return same
