"""Independent reference model for DNS names (never imports dns.*).

A name is a tuple of labels (bytes); an absolute name ends with the empty label b"".

* master-file text codec, RFC 1035 section 5.1: labels separated by ".", "\\X" quotes any
  non-digit character X, "\\DDD" is the octet with decimal value DDD, a free-standing "@"
  is the origin, a name not ending in "." is relative and gets the origin appended;
* wire codec, RFC 1035 sections 3.1 and 4.1.4, with a pointer audit;
* canonical order, RFC 4034 section 6.1 (labels right to left, only A-Z folded, absence
  of an octet sorts before a zero octet), relative names before absolute names;
* RFC 4471 section 3.1 (absolute method) successor / predecessor expectations under that
  order.
"""
from __future__ import annotations

MAXLABEL = 63
MAXNAME = 255

ROOT = (b"",)
EMPTY = ()


# ------------------------------------------------------------------ basics
def is_absolute(labels):
    return len(labels) > 0 and labels[-1] == b""


def wire_length(labels):
    return sum(len(l) + 1 for l in labels)


def limits_problem(labels):
    """None if `labels` is a legal name value, else a short reason."""
    for i, l in enumerate(labels):
        if not isinstance(l, bytes):
            return "label is not bytes"
        if len(l) > MAXLABEL:
            return "label of %d octets" % len(l)
        if l == b"" and i != len(labels) - 1:
            return "empty label not last"
    if wire_length(labels) > MAXNAME:
        return "encoded length %d" % wire_length(labels)
    return None


# ------------------------------------------------------------------ text (RFC 1035 5.1)
class TextError(Exception):
    def __init__(self, kind):
        Exception.__init__(self, kind)
        self.kind = kind


SPECIALS = b'"().;\\@$'


def text_encode(labels, spelling="min", omit_final_dot=False):
    """A master-file spelling of the name.

    spelling: "min"  printable octets as themselves, specials as \\X, the rest as \\DDD;
              "ddd"  every octet as \\DDD;
              "x"    every non-digit octet as \\X (digits as \\DDD);
              "raw"  every octet as itself except "." and "\\" (the text is one token).
    The str form maps octets to code points 0-255 (latin-1); use text_encode_bytes when
    the text has to be handed over as bytes.
    """
    return text_encode_bytes(labels, spelling, omit_final_dot).decode("latin-1")


def text_encode_bytes(labels, spelling="min", omit_final_dot=False):
    if len(labels) == 0:
        return b"@"
    if tuple(labels) == ROOT:
        return b"."
    ls = list(labels)
    absolute = is_absolute(ls)
    if absolute:
        ls = ls[:-1]
    parts = []
    for l in ls:
        out = bytearray()
        for c in l:
            if spelling == "ddd":
                out += b"\\%03d" % c
            elif spelling == "x":
                if 0x30 <= c <= 0x39:
                    out += b"\\%03d" % c
                else:
                    out += b"\\" + bytes([c])
            elif spelling == "raw":
                # only "." and "\\" need quoting when the text is already one token
                if c in b".\\":
                    out += b"\\" + bytes([c])
                else:
                    out.append(c)
            else:
                if c in SPECIALS:
                    out += b"\\" + bytes([c])
                elif 0x21 <= c <= 0x7E:
                    out.append(c)
                else:
                    out += b"\\%03d" % c
        parts.append(bytes(out))
    text = b".".join(parts)
    if absolute and not omit_final_dot:
        text += b"."
    if text == b"@":          # a free-standing "@" would mean the origin
        text = b"\\@"
    return text


def text_decode(text, origin=ROOT):
    """Parse one already-isolated master-file token as a domain name.

    text: bytes (or an all-latin-1 str).  origin: labels appended to a relative name, or
    None to keep it relative.  Raises TextError(kind), kind in {"empty-label",
    "bad-escape", "escape-over-255", "label-too-long", "name-too-long", "empty-text"}.
    """
    if isinstance(text, str):
        try:
            text = text.encode("latin-1")
        except UnicodeEncodeError:
            raise TextError("not-octets")
    if text == b"":
        raise TextError("empty-text")
    labels = []
    if text == b"@":
        rel = True
    elif text == b".":
        labels = [b""]
        rel = False
    else:
        cur = bytearray()
        i = 0
        n = len(text)
        rel = True
        while i < n:
            c = text[i]
            if c == 0x5C:  # backslash
                if i + 1 >= n:
                    raise TextError("bad-escape")
                d = text[i + 1]
                if 0x30 <= d <= 0x39:
                    ds = text[i + 1:i + 4]
                    if len(ds) < 3 or not all(0x30 <= x <= 0x39 for x in ds):
                        raise TextError("bad-escape")
                    v = int(ds)
                    if v > 255:
                        raise TextError("escape-over-255")
                    cur.append(v)
                    i += 4
                else:
                    cur.append(d)
                    i += 2
            elif c == 0x2E:  # dot
                if len(cur) == 0:
                    raise TextError("empty-label")
                labels.append(bytes(cur))
                cur = bytearray()
                i += 1
                if i == n:
                    labels.append(b"")
                    rel = False
            else:
                cur.append(c)
                i += 1
        if len(cur):
            labels.append(bytes(cur))
    if rel and origin is not None:
        labels.extend(origin)
    for l in labels:
        if len(l) > MAXLABEL:
            raise TextError("label-too-long")
    if wire_length(labels) > MAXNAME:
        raise TextError("name-too-long")
    p = limits_problem(labels)
    if p:
        raise TextError("empty-label")
    return tuple(labels)


# ------------------------------------------------------------------ wire (RFC 1035 3.1/4.1.4)
class WireError(Exception):
    def __init__(self, kind):
        Exception.__init__(self, kind)
        self.kind = kind


def wire_encode(labels, check=True):
    """Uncompressed encoding of an absolute name.  With check=False over-long labels
    (<= 255) and names are encoded anyway (to build invalid inputs)."""
    assert is_absolute(labels)
    out = bytearray()
    for l in labels:
        if check:
            assert len(l) <= MAXLABEL
        out.append(len(l))
        out += l
    if check:
        assert len(out) <= MAXNAME
    return bytes(out)


class Decoded:
    __slots__ = ("labels", "consumed", "hops", "segments", "nliteral")

    def __init__(self, labels, consumed, hops, segments, nliteral):
        self.labels = labels      # tuple of labels incl. the root label
        self.consumed = consumed  # octets of the field at `offset` (up to and incl. the
        #                           terminator or the first pointer)
        self.hops = hops          # [(pointer_offset, target)]
        self.segments = segments  # [(start, end)] of every run of labels that was read
        self.nliteral = nliteral  # number of labels read before the first pointer


def wire_decode(msg, offset):
    """Decode the name at `offset` of `msg`.

    A pointer must designate a *prior occurrence*: its target has to lie strictly before
    the start of the run of labels that contains the pointer (the name's own start for the
    first run, the previous target afterwards).  Hence targets strictly decrease, every
    target is strictly earlier than the pointer that names it, and the number of hops is
    bounded by the start offset.  Raises WireError(kind), kind in {"bad-offset",
    "truncated", "bad-label-type", "bad-pointer", "name-too-long"}.
    """
    n = len(msg)
    if offset < 0 or offset > n:
        raise WireError("bad-offset")
    labels = []
    hops = []
    segments = []
    consumed = None
    nliteral = None
    seg_start = offset
    pos = offset
    while True:
        if pos >= n:
            raise WireError("truncated")
        c = msg[pos]
        if c == 0:
            segments.append((seg_start, pos + 1))
            if consumed is None:
                consumed = pos + 1 - offset
                nliteral = len(labels)
            labels.append(b"")
            break
        if c < 64:
            if pos + 1 + c > n:
                raise WireError("truncated")
            labels.append(bytes(msg[pos + 1:pos + 1 + c]))
            pos += 1 + c
        elif c >= 192:
            if pos + 1 >= n:
                raise WireError("truncated")
            target = ((c & 0x3F) << 8) | msg[pos + 1]
            if target >= seg_start:
                raise WireError("bad-pointer")
            segments.append((seg_start, pos + 2))
            if consumed is None:
                consumed = pos + 2 - offset
                nliteral = len(labels)
            hops.append((pos, target))
            seg_start = target
            pos = target
        else:
            raise WireError("bad-label-type")
    if wire_length(labels) > MAXNAME:
        raise WireError("name-too-long")
    return Decoded(tuple(labels), consumed, hops, segments, nliteral)


# ------------------------------------------------------------------ order (RFC 4034 6.1)
_FOLD = bytes(c + 32 if 0x41 <= c <= 0x5A else c for c in range(256))


def fold(label):
    return label.translate(_FOLD)


def fold_name(labels):
    return tuple(fold(l) for l in labels)


def sort_key(labels):
    """Total order: relative names before absolute names, then RFC 4034 6.1."""
    return (1 if is_absolute(labels) else 0, [fold(l) for l in reversed(labels)])


def cmp(a, b):
    ka, kb = sort_key(a), sort_key(b)
    return -1 if ka < kb else (1 if ka > kb else 0)


def same_name(a, b):
    return fold_name(a) == fold_name(b)


NONE, SUPERDOMAIN, SUBDOMAIN, EQUAL, COMMONANCESTOR = 0, 1, 2, 3, 4


def relation(a, b):
    """(relation of a to b, number of common trailing labels)."""
    if is_absolute(a) != is_absolute(b):
        return NONE, 0
    fa, fb = fold_name(a), fold_name(b)
    k = 0
    while k < len(fa) and k < len(fb) and fa[-1 - k] == fb[-1 - k]:
        k += 1
    if k == len(fa) and k == len(fb):
        return EQUAL, k
    if k == len(fb):
        return SUBDOMAIN, k      # b's labels are a proper suffix of a's
    if k == len(fa):
        return SUPERDOMAIN, k
    return (COMMONANCESTOR if k > 0 else NONE), k


def is_subdomain(a, b):
    return relation(a, b)[0] in (SUBDOMAIN, EQUAL)


# ------------------------------------------------------------------ RFC 4471
def _next_octet(c):
    """Smallest octet value sorting strictly after c under case folding (c != 0xFF)."""
    if c == 0x40:
        return 0x5B      # "A".."Z" sort as "a".."z": after "@" comes "["
    if c == 0x5A:
        return 0x7B      # "Z" sorts as "z": next is "{"
    return c + 1


def successor(name, origin, prefix_ok=True):
    """RFC 4471 3.1.2 absolute-method successor of absolute `name` in the zone `origin`;
    returns None when no greater in-zone name exists (the caller wraps to the origin).
    With prefix_ok=False names below `name` are skipped (zone cut)."""
    name = tuple(name)
    if prefix_ok and wire_length(name) + 2 <= MAXNAME:
        return (b"\x00",) + name
    while not same_name(name, origin):
        l = name[0]
        if len(l) < MAXLABEL and wire_length(name) + 1 <= MAXNAME:
            return (l + b"\x00",) + name[1:]
        t = l.rstrip(b"\xff")
        if t:
            return (t[:-1] + bytes([_next_octet(t[-1])]),) + name[1:]
        name = name[1:]
    return None


def successor_increment_octet(name, origin, prefix_ok=True):
    """The octet that the increment step of the successor computation has to step over
    (None when the successor is found by prefixing/extending or does not exist)."""
    name = tuple(name)
    if prefix_ok and wire_length(name) + 2 <= MAXNAME:
        return None
    while not same_name(name, origin):
        l = name[0]
        if len(l) < MAXLABEL and wire_length(name) + 1 <= MAXNAME:
            return None
        t = l.rstrip(b"\xff")
        if t:
            return t[-1]
        name = name[1:]
    return None
