"""Shared machinery: context, violations/known findings, evidence, worker pool.

A check module (mc/checks/cNN.py) defines

    PROPERTY = "C19"; LEVEL = "model_checking"
    def run(ctx): ...               # explore, call ctx.violation()/ctx.count()/...
    def recheck(case) -> list[(signature, what)]   # optional: re-execute one case

Everything here is deterministic: VERIF_SEED only rotates shard order.
"""
from __future__ import annotations

import hashlib
import json
import multiprocessing
import os
import sys
import time
import traceback

VERIF = os.path.dirname(os.path.dirname(os.path.abspath(__file__)))
REPO = os.environ.get("DNSPYTHON_REPO", "/repo")
KNOWN = os.path.join(VERIF, "known_findings.json")
# VERIF_OUT diverts evidence/replays (used only by the mutant driver, never by MANIFEST commands)
OUT = os.environ.get("VERIF_OUT", VERIF)
NPROC = int(os.environ.get("VERIF_JOBS", "0")) or min(16, os.cpu_count() or 1)


def stable_hash(obj) -> str:
    return hashlib.sha1(repr(obj).encode("utf-8", "backslashreplace")).hexdigest()[:12]


def jsonable(o):
    """Best-effort conversion of a case description into JSON."""
    if isinstance(o, (str, int, float, bool)) or o is None:
        return o
    if isinstance(o, (bytes, bytearray)):
        return {"hex": bytes(o).hex()}
    if isinstance(o, dict):
        return {str(k): jsonable(v) for k, v in o.items()}
    if isinstance(o, (list, tuple, set, frozenset)):
        return [jsonable(x) for x in o]
    return repr(o)


def unjson(o):
    if isinstance(o, dict):
        if set(o.keys()) == {"hex"}:
            return bytes.fromhex(o["hex"])
        return {k: unjson(v) for k, v in o.items()}
    if isinstance(o, list):
        return [unjson(x) for x in o]
    return o


class Violation:
    __slots__ = ("signature", "what", "case")

    def __init__(self, signature, what, case):
        self.signature = signature
        self.what = what
        self.case = case

    def astuple(self):
        return (self.signature, self.what, self.case)


class Collector:
    """Per-worker accumulator; mergeable.  Holds counts, outcome histogram,
    a set of 'non-trivial distinct' keys (hashed), samples and violations."""

    MAX_VIOL_PER_SIG = 3

    def __init__(self):
        self.counts = {}
        self.outcomes = {}
        self.distinct = set()
        self.samples = []
        self.violations = {}  # signature -> list[Violation]
        self.caps = []

    def count(self, key, n=1):
        self.counts[key] = self.counts.get(key, 0) + n

    def max(self, key, v):
        if v > self.counts.get(key, 0):
            self.counts[key] = v

    def outcome(self, key, n=1):
        key = str(key)
        self.outcomes[key] = self.outcomes.get(key, 0) + n

    def nontrivial(self, key):
        self.distinct.add(hash(key) if not isinstance(key, int) else key)

    def sample(self, s, limit=6):
        if len(self.samples) < limit:
            self.samples.append(jsonable(s))

    def cap(self, text):
        if text not in self.caps:
            self.caps.append(text)

    def violation(self, signature, what, case):
        lst = self.violations.setdefault(signature, [])
        if len(lst) < self.MAX_VIOL_PER_SIG:
            lst.append(Violation(signature, str(what)[:2000], jsonable(case)))

    def merge(self, other: "Collector"):
        for k, v in other.counts.items():
            if k.startswith("max_"):
                self.max(k, v)
            else:
                self.count(k, v)
        for k, v in other.outcomes.items():
            self.outcome(k, v)
        self.distinct |= other.distinct
        for s in other.samples:
            if len(self.samples) < 12:
                self.samples.append(s)
        for sig, lst in other.violations.items():
            mine = self.violations.setdefault(sig, [])
            for v in lst:
                if len(mine) < self.MAX_VIOL_PER_SIG:
                    mine.append(v)
        for c in other.caps:
            self.cap(c)


class Runaway(BaseException):
    """Raised in a worker by the CPU-time watchdog."""


# CPU seconds (ITIMER_PROF: immune to machine load) one pool task may use.  No task of any check
# needs more than ~100 CPU-s in the quick tier / ~1500 in the thorough tier on the unchanged
# tree; library code that loops forever on one of the small inputs of a task (seen with seeded
# comparison-operator changes in dns/btree.py) must end the check with a verdict, not hang it.
TASK_CPU_BUDGET = {"quick": 400.0, "thorough": 6000.0}
_ABORT = multiprocessing.get_context("fork").Value("i", 0)


def _budget():
    return float(os.environ.get("VERIF_TASK_CPU_BUDGET", 0)) or TASK_CPU_BUDGET.get(os.environ.get("VERIF_TIER_ACTIVE", "quick"), 400.0)


def _on_prof(signum, frame):
    import signal
    signal.setitimer(signal.ITIMER_PROF, 0)
    raise Runaway()


def guarded(fn, col, describe):
    """Run fn() under the CPU watchdog; a runaway is recorded in col (as '__runaway__', turned
    into a VIOLATION by finish) and makes every later task of the run return at once."""
    import signal
    if _ABORT.value:
        col.count("tasks_skipped_after_runaway")
        return
    old = signal.signal(signal.SIGPROF, _on_prof)
    signal.setitimer(signal.ITIMER_PROF, _budget())
    try:
        fn()
    except Runaway as e:
        _ABORT.value = 1
        tb = traceback.extract_tb(e.__traceback__)
        lib = [f for f in tb if (os.sep + "dns" + os.sep) in f.filename]
        where = " <- ".join("%s:%d %s" % (os.path.basename(f.filename), f.lineno, f.name) for f in reversed(lib[-4:])) or \
            " <- ".join("%s:%d %s" % (os.path.basename(f.filename), f.lineno, f.name) for f in reversed(tb[-3:]))
        col.count("runaway_tasks")
        col.violations.setdefault("__runaway__", []).append(
            Violation("__runaway__", "a task used more than %.0f CPU seconds (normal: seconds); interrupted in %s; task %s"
                      % (_budget(), where, str(jsonable(describe))[:400]), {"mode": "runaway", "task": jsonable(describe)}))
    finally:
        signal.setitimer(signal.ITIMER_PROF, 0)
        signal.signal(signal.SIGPROF, old)


def _worker_entry(args):
    fn, task = args
    col = Collector()
    try:
        guarded(lambda: fn(task, col), col, task)
    except BaseException as e:  # harness error inside a worker
        record_escape(col, e, task)
    return col


def record_escape(col, e, task):
    """An exception that escaped from a task.  Raised inside the library (innermost frame under
    dns/) it is the library misbehaving on one of the task's small inputs at a place where the
    harness did not expect any exception - reported as a violation (it never happens on the
    unchanged tree, where it would show up as exit 2 during development); raised by the harness
    itself it stays a harness error."""
    tb = traceback.extract_tb(e.__traceback__)
    text = "".join(traceback.format_exception(e))[-3000:]
    if tb and (os.sep + "dns" + os.sep) in tb[-1].filename and isinstance(e, Exception):
        col.count("library_exceptions_escaping_the_harness")
        key = "__libcrash__/%s@%s" % (type(e).__name__, tb[-1].name)
        col.violations.setdefault(key, []).append(
            Violation(key, "exception raised inside the library where the harness expects none: " + text[-1200:],
                      {"mode": "runaway", "task": jsonable(task)}))
    else:
        col.count("harness_errors")
        col.violations.setdefault("__harness__", []).append(Violation("__harness__", text, jsonable(task)))


class Context(Collector):
    def __init__(self, prop, level, tier, seed):
        super().__init__()
        self.prop = prop
        self.level = level
        self.tier = tier
        self.seed = seed
        self.t0 = time.time()
        self.assumptions = []
        self.extra = {}
        self.rule = ""
        self.exhaustive = True

    @property
    def quick(self):
        return self.tier == "quick"

    def pick(self, q, t):
        return q if self.tier == "quick" else t

    def assume(self, text):
        self.assumptions.append(text)

    def pmap(self, fn, tasks, chunksize=1, procs=None):
        """Run fn(task, collector) for every task on the worker pool and merge.
        VERIF_SEED rotates the task order only."""
        tasks = list(tasks)
        if tasks and self.seed:
            r = self.seed % len(tasks)
            tasks = tasks[r:] + tasks[:r]
        procs = procs or NPROC
        if procs <= 1 or len(tasks) <= 1:
            for t in tasks:
                self.merge(_worker_entry((fn, t)))
            return
        ctx = multiprocessing.get_context("fork")
        with ctx.Pool(min(procs, len(tasks))) as pool:
            for col in pool.imap_unordered(_worker_entry, [(fn, t) for t in tasks],
                                           chunksize):
                self.merge(col)


def load_known():
    out = {"open": [], "fixed": []}
    import glob
    for path in [KNOWN] + sorted(glob.glob(os.path.join(VERIF, "known_findings.d", "*.json"))):
        try:
            with open(path) as f:
                d = json.load(f)
        except FileNotFoundError:
            continue
        out["open"] += d.get("open", [])
        out["fixed"] += d.get("fixed", [])
    return out


def finish(ctx: Context, module) -> int:
    """Confirm, classify and report violations; write evidence; return exit code."""
    known = load_known()
    open_sigs = {e["signature"]: e for e in known.get("open", [])
                 if e.get("property") == ctx.prop}
    rc = 0
    nviol = 0
    nknown = 0
    harness = ctx.violations.pop("__harness__", None)
    if harness:
        for v in harness:
            print("HARNESS-ERROR in worker:\n" + v.what, file=sys.stderr)
        rc = 2
    recheck = getattr(module, "recheck", None)
    runaway = ctx.violations.pop("__runaway__", None)
    if runaway:
        # not re-executed (it would run away again); reported as found
        ctx.violations[ctx.prop + "/runaway-task"] = runaway
    for k in [k for k in ctx.violations if k.startswith("__libcrash__/")]:
        ctx.violations[ctx.prop + "/library-exception-in-harness/" + k.split("/", 1)[1]] = ctx.violations.pop(k)
    seen_known = set()
    for sig in sorted(ctx.violations):
        vs = ctx.violations[sig]
        v = vs[0]
        if recheck is not None and not sig.endswith("/runaway-task") and "/library-exception-in-harness/" not in sig:
            # deterministic replay: the same case must fail the same way twice
            try:
                again1 = recheck(unjson(v.case))
                again2 = recheck(unjson(v.case))
            except Exception:
                print("HARNESS-ERROR: recheck crashed for %s\n%s" %
                      (sig, traceback.format_exc()), file=sys.stderr)
                rc = 2
                continue
            s1 = sorted(s for s, _ in again1)
            s2 = sorted(s for s, _ in again2)
            if s1 != s2 or sig not in s1:
                print("HARNESS-ERROR: violation %s not reproducible on replay "
                      "(%r vs %r)" % (sig, s1, s2), file=sys.stderr)
                rc = 2
                continue
        if sig in open_sigs:
            nknown += 1
            if sig not in seen_known:
                seen_known.add(sig)
                print("KNOWN-FINDING: property=%s %s [%s]" %
                      (ctx.prop, open_sigs[sig].get("what", v.what), sig))
            continue
        nviol += 1
        d = os.path.join(OUT, "replays", ctx.prop)
        os.makedirs(d, exist_ok=True)
        name = "".join(c if c.isalnum() or c in "-_." else "_" for c in sig)[:80]
        path = os.path.join(d, name + "-" + stable_hash(v.case) + ".json")
        with open(path, "w") as f:
            json.dump({"property": ctx.prop, "signature": sig, "what": v.what,
                       "case": v.case, "more_cases": [x.case for x in vs[1:]],
                       "replay": "cd /verif && /venv/bin/python -m mc.run %s --replay %s"
                                 % (ctx.prop, path)}, f, indent=1)
        print("VIOLATION property=%s replay=%s" % (ctx.prop, path))
        print("  signature: %s\n  what: %s" % (sig, v.what.replace("\n", "\n    ")))
        if rc == 0:
            rc = 1
    write_evidence(ctx, nviol, nknown)
    if nviol:
        # confirmed (replayed) violations decide the verdict even if some worker also hit
        # a harness error (usually a consequence of the same broken code)
        return 1
    return rc


def write_evidence(ctx: Context, nviol, nknown):
    cov = dict(ctx.extra)
    c = ctx.counts
    evaluations = c.get("evaluations", 0)
    cov["evaluations"] = evaluations
    cov["distinct_nontrivial"] = len(ctx.distinct)
    cov["rule"] = ctx.rule
    cov["samples"] = ctx.samples[:12]
    cov["exhaustive"] = bool(ctx.exhaustive and not ctx.caps)
    if ctx.caps:
        cov["caps_hit"] = ctx.caps
    if ctx.level == "model_checking":
        cov["states"] = c.get("states", 0)
        cov["transitions"] = c.get("transitions", 0)
        cov["traces_validated_against_impl"] = c.get(
            "traces_validated_against_impl", evaluations)
    for k, v in sorted(c.items()):
        if k not in cov:
            cov[k] = v
    cov["distinct_outcomes"] = len(ctx.outcomes)
    top = sorted(ctx.outcomes.items(), key=lambda kv: -kv[1])
    cov["outcomes"] = dict(top[:40])
    if len(ctx.outcomes) <= 1 and evaluations > 1:
        cov["vacuity_warning"] = "one outcome from many executions"
    cov["known_findings_hit"] = nknown
    ev = {
        "property_id": ctx.prop,
        "tier": ctx.tier,
        "seed": ctx.seed,
        "level": ctx.level,
        "coverage": cov,
        "assumptions": ctx.assumptions,
        "wall_s": round(time.time() - ctx.t0, 2),
        "violations": nviol,
    }
    os.makedirs(os.path.join(OUT, "evidence"), exist_ok=True)
    path = os.path.join(OUT, "evidence", ctx.prop + ".json")
    tmp = path + ".tmp%d" % os.getpid()
    with open(tmp, "w") as f:
        json.dump(ev, f, indent=1, sort_keys=True)
        f.write("\n")
    os.replace(tmp, path)
